#!/bin/bash
# Negative control: apply each behaviour-preserving refactoring of tools/benign/ to /repo, run all four
# quick checks, expect exit 0 everywhere, undo. Usage: tools/run_benign.sh [pattern] [extra check args]
DIR=/verif/tools/benign; PAT="${1:-*}"; shift || true
OUT="$DIR/RESULTS.txt"; : > "$OUT.tmp"
if [ -n "$(git -C /repo status --porcelain --untracked-files=no)" ]; then echo "/repo is not clean"; exit 2; fi
for d in "$DIR"/$PAT.diff; do
  n=$(basename "$d" .diff)
  git -C /repo apply "$d" || { echo "$n APPLY-FAILED" | tee -a "$OUT.tmp"; continue; }
  line="$n"
  for prop in C06 C07 C08 C17; do
    out=$(cd /verif && VERIF_REPLAY_DIR=/dev/shm/benign_replays VERIF_EVIDENCE_DIR=/dev/shm/benign_evidence ./check "$prop" "$@" 2>&1); code=$?
    v=$(echo "$out" | grep -c '^VIOLATION')
    line="$line $prop:exit=$code,violations=$v"
    [ $code -ne 0 ] && echo "$out" | grep '^VIOLATION\|^HARNESS' | head -3 | cut -c1-300
  done
  git -C /repo checkout -- . && git -C /repo clean -fdq -- cli core
  echo "$line" | tee -a "$OUT.tmp"
done
mv "$OUT.tmp" "$OUT"
