#!/bin/bash
# Negative control: apply each behaviour-preserving refactoring of tools/benign/ to /repo, run all four
# quick checks, expect exit 0 everywhere, undo. Usage: tools/run_benign.sh [pattern] [extra check args]
# REPO / VDIR: run against a scratch worktree with a second copy of /verif (so /repo stays untouched)
REPO="${VERIF_REPO:-/repo}"; VDIR="${VERIF_DIR:-/verif}"; export VERIF_REPO="$REPO"
DIR=/verif/tools/benign; PAT="${1:-*}"; shift || true
OUT="$DIR/RESULTS.txt"; : > "$OUT.tmp"
if [ -n "$(git -C "$REPO" status --porcelain --untracked-files=no)" ]; then echo "$REPO is not clean"; exit 2; fi
for d in "$DIR"/$PAT.diff; do
  n=$(basename "$d" .diff)
  git -C "$REPO" apply "$d" 2>/dev/null || git -C "$REPO" apply --3way "$d" >/dev/null 2>&1 || { git -C "$REPO" reset -q --hard HEAD; echo "$n APPLY-FAILED" | tee -a "$OUT.tmp"; continue; }
  line="$n"
  for prop in C06 C07 C08 C17; do
    out=$(cd "$VDIR" && VERIF_REPLAY_DIR=/dev/shm/benign_replays VERIF_EVIDENCE_DIR=/dev/shm/benign_evidence ./check "$prop" "$@" 2>&1); code=$?
    v=$(echo "$out" | grep -c '^VIOLATION')
    line="$line $prop:exit=$code,violations=$v"
    [ $code -ne 0 ] && echo "$out" | grep '^VIOLATION\|^HARNESS' | head -3 | cut -c1-300
  done
  git -C "$REPO" reset -q --hard HEAD && git -C "$REPO" clean -fdq -- cli core
  echo "$line" | tee -a "$OUT.tmp"
done
mv "$OUT.tmp" "$OUT"
