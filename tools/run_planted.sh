#!/bin/bash
# Sensitivity run: apply each planted change (or the given ones) to /repo, run the property's quick
# check, record whether it was caught, undo the change. Usage: tools/run_planted.sh [dir] [pattern] [extra check args]
# Never leaves /repo modified. Results: <dir>/RESULTS.txt
REPO="${VERIF_REPO:-/repo}"; VDIR="${VERIF_DIR:-/verif}"; export VERIF_REPO="$REPO"
DIR="${1:-/verif/tools/planted}"; PAT="${2:-*}"; shift 2 || true
OUT="$DIR/RESULTS.txt"; : > "$OUT.tmp"
if [ -n "$(git -C "$REPO" status --porcelain --untracked-files=no)" ]; then echo "$REPO is not clean"; exit 2; fi
for d in "$DIR"/$PAT.diff; do
  n=$(basename "$d" .diff); prop=${n%%_*}
  # (patches written against an older HEAD: fall back to a three-way merge)
  git -C "$REPO" apply "$d" 2>/dev/null || git -C "$REPO" apply --3way "$d" >/dev/null 2>&1 || { git -C "$REPO" reset -q --hard HEAD; echo "$n APPLY-FAILED" | tee -a "$OUT.tmp"; continue; }
  if git -C "$REPO" diff --name-only --diff-filter=U | grep -q .; then git -C "$REPO" reset -q --hard HEAD; git -C "$REPO" clean -fdq -- cli core; echo "$n APPLY-CONFLICT" | tee -a "$OUT.tmp"; continue; fi
  t0=$(date +%s)
  out=$(cd "$VDIR" && VERIF_REPLAY_DIR=/dev/shm/planted_replays VERIF_EVIDENCE_DIR=/dev/shm/planted_evidence ./check "$prop" "$@" 2>&1); code=$?
  t1=$(date +%s)
  git -C "$REPO" reset -q --hard HEAD && git -C "$REPO" clean -fdq -- cli core
  v=$(echo "$out" | grep -c '^VIOLATION')
  first=$(echo "$out" | grep '^VIOLATION' | head -1 | cut -c1-260)
  echo "$n exit=$code violations=$v wall=$((t1-t0))s :: $first" | tee -a "$OUT.tmp"
done
mv "$OUT.tmp" "$OUT"
