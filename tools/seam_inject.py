#!/usr/bin/env python3
"""Build-time seam injection.

Copies /repo/{cli,core}/src into <verif>/sim/gen/{cli,core}/src and puts, at the top of every module
(file or inline `mod x { .. }`) that does not already have it, the line

    #[cfg(typeshare_verif)] #[allow(unused_imports)] use verif_rt::{shim as std, shim_crossbeam as crossbeam};

so that every `std::thread`, `std::sync`, `std::fs` and `crossbeam::channel` path of the code under
test - also in modules added after the hooks in /repo were written - resolves to the simulator's
seams. Nothing in /repo is touched; the simulator is still built from /repo's current working tree.
Files are rewritten only when their content changes (cargo sees unchanged mtimes otherwise).
"""
import os, re, sys

ALIAS = "#[cfg(typeshare_verif)] #[allow(unused_imports)] use verif_rt::{shim as std, shim_crossbeam as crossbeam};"
HAS_ALIAS = re.compile(r"^use verif_rt::(\{\s*)?shim as std", re.M)
INLINE_MOD = re.compile(r"^(\s*)(pub(\([^)]*\))?\s+)?mod\s+[A-Za-z_][A-Za-z0-9_]*\s*\{\s*(//.*)?$")


def inject(text: str) -> str:
    lines = text.split("\n")
    out = []
    i = 0
    n = len(lines)
    top_done = bool(HAS_ALIAS.search(text))
    # 1. module level of the file: after leading comments, blank lines and inner attributes
    if not top_done:
        in_block = False
        depth = 0
        while i < n:
            t = lines[i].strip()
            if in_block:
                out.append(lines[i]); i += 1
                if "*/" in t:
                    in_block = False
                continue
            if depth > 0:  # continuation of a multi-line inner attribute
                depth += t.count("[") - t.count("]")
                out.append(lines[i]); i += 1
                continue
            if t == "" or t.startswith("//"):
                out.append(lines[i]); i += 1
                continue
            if t.startswith("/*"):
                if "*/" not in t:
                    in_block = True
                out.append(lines[i]); i += 1
                continue
            if t.startswith("#!["):
                depth = t.count("[") - t.count("]")
                out.append(lines[i]); i += 1
                continue
            break
        out.append(ALIAS)
    # 2. inline modules
    while i < n:
        out.append(lines[i])
        m = INLINE_MOD.match(lines[i])
        if m:
            nxt = lines[i + 1] if i + 1 < n else ""
            if "verif_rt::" not in nxt:
                out.append(m.group(1) + "    " + ALIAS)
        i += 1
    return "\n".join(out)


def sync(src_root: str, dst_root: str):
    wanted = set()
    for d, _, files in os.walk(src_root):
        for f in files:
            sp = os.path.join(d, f)
            rel = os.path.relpath(sp, src_root)
            dp = os.path.join(dst_root, rel)
            wanted.add(os.path.normpath(dp))
            with open(sp, "rb") as fh:
                data = fh.read()
            if f.endswith(".rs"):
                try:
                    data = inject(data.decode("utf-8")).encode("utf-8")
                except UnicodeDecodeError:
                    pass
            old = None
            if os.path.isfile(dp):
                with open(dp, "rb") as fh:
                    old = fh.read()
            if old != data:
                os.makedirs(os.path.dirname(dp), exist_ok=True)
                with open(dp, "wb") as fh:
                    fh.write(data)
    for d, _, files in os.walk(dst_root, topdown=False):
        for f in files:
            p = os.path.normpath(os.path.join(d, f))
            if p not in wanted:
                os.remove(p)
        if d != dst_root and not os.listdir(d):
            os.rmdir(d)


def main():
    repo = sys.argv[1] if len(sys.argv) > 1 else "/repo"
    gen = sys.argv[2] if len(sys.argv) > 2 else os.path.join(os.path.dirname(os.path.dirname(os.path.abspath(__file__))), "sim", "gen")
    for crate in ("cli", "core"):
        src = os.path.join(repo, crate, "src")
        if not os.path.isdir(src):
            print(f"seam_inject: missing {src}", file=sys.stderr)
            sys.exit(2)
        sync(src, os.path.join(gen, crate, "src"))


if __name__ == "__main__":
    main()
