#!/usr/bin/env python3
"""Print a replay file compactly: show_replay.py <file> [max_chars_per_file]"""
import json, sys
d = json.load(open(sys.argv[1]))
lim = int(sys.argv[2]) if len(sys.argv) > 2 else 600
c = d['case']
print('SIGNATURE', d['signature']); print('MESSAGE', d['message'][:500]); print('shipped_knobs', d['shipped_knobs'], 'digest', d['event_digest'])
for vi, v in enumerate(c['versions']):
    print(f'--- version {vi}')
    for f in v:
        print(f"  [{f['path']}] {f['kind']} {f.get('raw_hex','')}")
        txt = ''.join(f['chunks'])
        for line in txt[:lim].splitlines():
            print('      ' + line)
for o in c['ops']:
    s = o['sched']
    if isinstance(s, dict) and 'Replay' in s: s = 'Replay' + str(s['Replay']['steps'])
    print("OP", o["role"], "v", o["version"], o["lang"], o["mode"], "roots", o.get("roots"), "out_sub", o.get("out_sub"), "obst", o.get("obstacle"), 'knobs', o['knobs'], 'hash', o['hash_seed'], 'sched', s, 'faults', o['faults'], 'extra', o['extra'], 'age', o.get('src_age', 0))
print('notes', c['notes'], 'preseed', c.get('preseed'))
