//! The seams the hooked code sees instead of std / crossbeam / the OS.
//!
//! * `thread`, `sync::atomic` — shuttle's scheduler-owned equivalents.
//! * `channel::bounded`       — shuttle `mpsc::sync_channel` plus a fault layer (delay, reorder) and probes.
//! * `fs` (and `shim`, usable as a stand-in for the `std` path root) — pass-through to the real
//!   scratch directory with an operation log and injected faults.
//! * `walk` — readdir seam of the vendored `ignore` walker.

use crate::ctx::{self, ChanEv, CrashPayload, Fault, FsOp};
use std::io;
use std::path::Path;

fn task_id() -> u32 {
    let t: usize = shuttle::current::me().into();
    t as u32
}

fn in_sim() -> bool {
    shuttle::current::get_current_task().is_some()
}

pub mod thread {
    pub use shuttle::thread::*;
    /// The number of cores is part of the environment a run must not depend on: it follows the
    /// run's worker-count knob (1-16), like the walker's thread count.
    pub fn available_parallelism() -> std::io::Result<std::num::NonZeroUsize> {
        match crate::ctx::with(|c| c.knobs.as_ref().map(|k| k.workers)).flatten() {
            Some(w) => Ok(std::num::NonZeroUsize::new(w.max(1)).expect("non-zero")),
            None => std::thread::available_parallelism(),
        }
    }

    /// The walker's idle back-off. Time is not modelled: an idle sleep is a yield with the
    /// "deprioritise me" hint, so schedulers that run a task until it blocks still make progress.
    pub fn sleep(_d: std::time::Duration) {
        shuttle::thread::yield_now();
    }
}

pub mod sync {
    pub use shuttle::sync::*;
}

// ------------------------------------------------------------------------------------------------
// channel
// ------------------------------------------------------------------------------------------------
pub mod channel {
    //! `crossbeam::channel` as the code under test sees it: a multi-producer multi-consumer queue
    //! built on the scheduler's Mutex and Condvar (so every blocking point is a scheduling decision
    //! and a stuck pipeline is a detected deadlock), with the run's capacity knob and the fault
    //! layer (sender delay, receiver-side reordering, explicit arrival permutations).
    use super::*;
    use shuttle::sync::{Condvar, Mutex};
    use std::collections::VecDeque;
    use std::sync::Arc;

    /// A timed wait under the simulated clock (one scheduler step = one millisecond): `poll` is
    /// tried, the task yields, and the wait times out when the clock passes the deadline or when
    /// the scheduler finds that every runnable task sits in a timed wait (nothing can happen before
    /// the earliest deadline: the clock jumps there).
    fn timed_wait<R>(d: std::time::Duration, mut poll: impl FnMut() -> Option<R>) -> Option<R> {
        let me = task_id();
        let ms = (d.as_millis().min(u64::MAX as u128 / 2) as u64).max(1);
        let deadline = ctx::with(|c| c.clock_steps.saturating_add(ms)).unwrap_or(0);
        loop {
            if let Some(r) = poll() {
                ctx::with(|c| {
                    c.timed.remove(&me);
                    c.timed_fire.remove(&me);
                });
                return Some(r);
            }
            let fire = ctx::with(|c| c.timed_fire.remove(&me) || c.clock_steps >= deadline).unwrap_or(true);
            if fire {
                ctx::with(|c| {
                    c.timed.remove(&me);
                });
                ctx::fired("timeout_fired");
                return None;
            }
            ctx::with(|c| {
                c.timed.insert(me, deadline);
            });
            shuttle::thread::yield_now();
        }
    }

    pub struct SendError<T>(pub T);
    impl<T> std::fmt::Debug for SendError<T> {
        fn fmt(&self, f: &mut std::fmt::Formatter<'_>) -> std::fmt::Result {
            f.write_str("SendError { .. }")
        }
    }
    impl<T> std::fmt::Display for SendError<T> {
        fn fmt(&self, f: &mut std::fmt::Formatter<'_>) -> std::fmt::Result {
            f.write_str("sending on a disconnected channel")
        }
    }
    impl<T> std::error::Error for SendError<T> {}
    impl<T> SendError<T> {
        pub fn into_inner(self) -> T {
            self.0
        }
    }

    pub enum TrySendError<T> {
        Full(T),
        Disconnected(T),
    }
    impl<T> std::fmt::Debug for TrySendError<T> {
        fn fmt(&self, f: &mut std::fmt::Formatter<'_>) -> std::fmt::Result {
            match self {
                TrySendError::Full(_) => f.write_str("Full(..)"),
                TrySendError::Disconnected(_) => f.write_str("Disconnected(..)"),
            }
        }
    }
    impl<T> std::fmt::Display for TrySendError<T> {
        fn fmt(&self, f: &mut std::fmt::Formatter<'_>) -> std::fmt::Result {
            match self {
                TrySendError::Full(_) => f.write_str("sending on a full channel"),
                TrySendError::Disconnected(_) => f.write_str("sending on a disconnected channel"),
            }
        }
    }
    impl<T> std::error::Error for TrySendError<T> {}
    impl<T> TrySendError<T> {
        pub fn is_full(&self) -> bool {
            matches!(self, TrySendError::Full(_))
        }
        pub fn is_disconnected(&self) -> bool {
            matches!(self, TrySendError::Disconnected(_))
        }
        pub fn into_inner(self) -> T {
            match self {
                TrySendError::Full(t) | TrySendError::Disconnected(t) => t,
            }
        }
    }

    #[derive(Debug, PartialEq, Eq, Clone, Copy)]
    pub struct RecvError;
    impl std::fmt::Display for RecvError {
        fn fmt(&self, f: &mut std::fmt::Formatter<'_>) -> std::fmt::Result {
            f.write_str("receiving on an empty and disconnected channel")
        }
    }
    impl std::error::Error for RecvError {}

    #[derive(Debug, PartialEq, Eq, Clone, Copy)]
    pub enum TryRecvError {
        Empty,
        Disconnected,
    }
    impl std::fmt::Display for TryRecvError {
        fn fmt(&self, f: &mut std::fmt::Formatter<'_>) -> std::fmt::Result {
            match self {
                TryRecvError::Empty => f.write_str("receiving on an empty channel"),
                TryRecvError::Disconnected => f.write_str("receiving on an empty and disconnected channel"),
            }
        }
    }
    impl std::error::Error for TryRecvError {}
    impl TryRecvError {
        pub fn is_empty(&self) -> bool {
            matches!(self, TryRecvError::Empty)
        }
        pub fn is_disconnected(&self) -> bool {
            matches!(self, TryRecvError::Disconnected)
        }
    }

    #[derive(Debug, PartialEq, Eq, Clone, Copy)]
    pub enum RecvTimeoutError {
        Timeout,
        Disconnected,
    }
    impl std::fmt::Display for RecvTimeoutError {
        fn fmt(&self, f: &mut std::fmt::Formatter<'_>) -> std::fmt::Result {
            match self {
                RecvTimeoutError::Timeout => f.write_str("timed out waiting on receive operation"),
                RecvTimeoutError::Disconnected => f.write_str("channel is empty and disconnected"),
            }
        }
    }
    impl std::error::Error for RecvTimeoutError {}

    pub enum SendTimeoutError<T> {
        Timeout(T),
        Disconnected(T),
    }
    impl<T> std::fmt::Debug for SendTimeoutError<T> {
        fn fmt(&self, f: &mut std::fmt::Formatter<'_>) -> std::fmt::Result {
            f.write_str("SendTimeoutError(..)")
        }
    }

    struct State<T> {
        buf: VecDeque<(u64, u32, T)>,
        /// None = unbounded
        cap: Option<usize>,
        senders: usize,
        receivers: usize,
        next_ticket: u64,
        /// tickets of rendezvous items already taken
        taken: Vec<u64>,
        /// receiver-side hold-back buffer of the reorder fault (not counted against the capacity)
        held: Vec<(u64, u32, T)>,
        delivered: usize,
    }

    struct Chan<T> {
        st: Mutex<State<T>>,
        not_empty: Condvar,
        not_full: Condvar,
        handed_over: Condvar,
        /// this is the pipeline's first channel of the invocation (the one the probes describe)
        primary: bool,
    }

    pub struct Sender<T> {
        ch: Arc<Chan<T>>,
    }

    pub struct Receiver<T> {
        ch: Arc<Chan<T>>,
    }

    thread_local! {
        static CHANNELS: std::cell::Cell<u32> = const { std::cell::Cell::new(0) };
    }

    fn make<T>(cap: Option<usize>) -> (Sender<T>, Receiver<T>) {
        let primary = CHANNELS.with(|c| {
            let v = c.get();
            c.set(v + 1);
            v == 0
        });
        if primary {
            ctx::with(|c| {
                c.senders_alive = 1;
                c.receiver_alive = true;
            });
        }
        let ch = Arc::new(Chan {
            st: Mutex::new(State { buf: VecDeque::new(), cap, senders: 1, receivers: 1, next_ticket: 0, taken: vec![], held: vec![], delivered: 0 }),
            not_empty: Condvar::new(),
            not_full: Condvar::new(),
            handed_over: Condvar::new(),
            primary,
        });
        (Sender { ch: ch.clone() }, Receiver { ch })
    }

    /// `crossbeam::channel::bounded`, with the capacity taken from the run's knob for the pipeline's
    /// first channel (the literal in the code under test is what ships; the knob is what this run
    /// explores). Further channels keep the capacity they ask for.
    pub fn bounded<T>(cap: usize) -> (Sender<T>, Receiver<T>) {
        let first = CHANNELS.with(|c| c.get()) == 0;
        let cap = if first && cap > 0 { ctx::with(|c| c.knobs.as_ref().map(|k| k.capacity)).flatten().unwrap_or(cap) } else { cap };
        make(Some(cap))
    }

    /// `crossbeam::channel::unbounded`
    pub fn unbounded<T>() -> (Sender<T>, Receiver<T>) {
        make(None)
    }

    fn note_state(c: &mut ctx::Ctx, q: u32) {
        c.pipe_states.insert((q, c.senders_alive, c.receiver_alive));
    }

    impl<T> Clone for Sender<T> {
        fn clone(&self) -> Self {
            self.ch.st.lock().unwrap().senders += 1;
            if self.ch.primary {
                ctx::with(|c| c.senders_alive += 1);
            }
            Sender { ch: self.ch.clone() }
        }
    }

    impl<T> Drop for Sender<T> {
        fn drop(&mut self) {
            if let Ok(mut st) = self.ch.st.lock() {
                st.senders = st.senders.saturating_sub(1);
                let last = st.senders == 0;
                drop(st);
                if last {
                    self.ch.not_empty.notify_all();
                }
            }
            if self.ch.primary {
                ctx::with(|c| c.senders_alive = c.senders_alive.saturating_sub(1));
            }
        }
    }

    impl<T> Clone for Receiver<T> {
        fn clone(&self) -> Self {
            self.ch.st.lock().unwrap().receivers += 1;
            Receiver { ch: self.ch.clone() }
        }
    }

    impl<T> Drop for Receiver<T> {
        fn drop(&mut self) {
            let mut q = 0;
            let mut last = false;
            if let Ok(mut st) = self.ch.st.lock() {
                st.receivers = st.receivers.saturating_sub(1);
                last = st.receivers == 0;
                q = (st.buf.len() + st.held.len()) as u32;
                drop(st);
                if last {
                    self.ch.not_full.notify_all();
                    self.ch.handed_over.notify_all();
                }
            }
            if self.ch.primary && last {
                ctx::with(|c| {
                    c.receiver_alive = false;
                    if c.senders_alive > 0 {
                        *c.probes.entry("collector_exit_with_senders_alive").or_insert(0) += 1;
                    }
                    if q > 0 {
                        *c.probes.entry("collector_exit_with_items_in_flight").or_insert(0) += 1;
                    }
                    note_state(c, q);
                });
            }
        }
    }

    impl<T> Sender<T> {
        fn fault_delay(&self) -> (u32, u32) {
            let me = task_id();
            let (tag, delay) = ctx::with(|c| {
                let tag = c.last_read.remove(&me).unwrap_or(u32::MAX);
                let k = c.knobs.clone().unwrap_or_else(ctx::Knobs::shipped);
                let d = if k.delay_max > 0 && self.ch.primary {
                    c.rng.as_mut().map(|r| r.below(k.delay_max as u64 + 1)).unwrap_or(0) as u32
                } else {
                    0
                };
                (tag, d)
            })
            .unwrap_or((u32::MAX, 0));
            if delay > 0 {
                ctx::fired("chan_delay");
            }
            for _ in 0..delay {
                // a plain switch, not a yield hint: priority schedulers must not deprioritise us
                shuttle::thread::sleep(std::time::Duration::from_millis(0));
            }
            (me, tag)
        }

        pub fn send(&self, t: T) -> Result<(), SendError<T>> {
            let (me, tag) = self.fault_delay();
            let mut st = self.ch.st.lock().unwrap();
            let mut blocked = false;
            loop {
                if st.receivers == 0 {
                    drop(st);
                    if self.ch.primary {
                        ctx::probe("send_after_disconnect");
                        ctx::with(|c| c.chanlog.push(ChanEv { ev: "send_err".into(), task: me, file: tag, qlen: 0 }));
                    }
                    return Err(SendError(t));
                }
                let full = match st.cap {
                    None => false,
                    Some(0) => !st.buf.is_empty(),
                    Some(c) => st.buf.len() >= c,
                };
                if !full {
                    break;
                }
                if !blocked && self.ch.primary {
                    ctx::probe("sender_blocked_on_full");
                }
                blocked = true;
                st = self.ch.not_full.wait(st).unwrap();
            }
            let ticket = st.next_ticket;
            st.next_ticket += 1;
            st.buf.push_back((ticket, tag, t));
            let q = st.buf.len() as u32;
            let rendezvous = st.cap == Some(0);
            if self.ch.primary {
                ctx::with(|c| {
                    c.chanlog.push(ChanEv { ev: "send".into(), task: me, file: tag, qlen: q });
                    note_state(c, q);
                });
            }
            self.ch.not_empty.notify_one();
            if rendezvous {
                // a zero-capacity channel: the send completes when a receiver has taken the item
                loop {
                    if let Some(p) = st.taken.iter().position(|x| *x == ticket) {
                        st.taken.swap_remove(p);
                        return Ok(());
                    }
                    if st.receivers == 0 {
                        if let Some(p) = st.buf.iter().position(|x| x.0 == ticket) {
                            let (_, _, t) = st.buf.remove(p).unwrap();
                            return Err(SendError(t));
                        }
                        return Ok(());
                    }
                    st = self.ch.handed_over.wait(st).unwrap();
                }
            }
            Ok(())
        }

        pub fn try_send(&self, t: T) -> Result<(), TrySendError<T>> {
            let (me, tag) = self.fault_delay();
            let mut st = self.ch.st.lock().unwrap();
            if st.receivers == 0 {
                return Err(TrySendError::Disconnected(t));
            }
            let full = match st.cap {
                None => false,
                Some(0) => true,
                Some(c) => st.buf.len() >= c,
            };
            if full {
                return Err(TrySendError::Full(t));
            }
            let ticket = st.next_ticket;
            st.next_ticket += 1;
            st.buf.push_back((ticket, tag, t));
            let q = st.buf.len() as u32;
            if self.ch.primary {
                ctx::with(|c| {
                    c.chanlog.push(ChanEv { ev: "send".into(), task: me, file: tag, qlen: q });
                    note_state(c, q);
                });
            }
            self.ch.not_empty.notify_one();
            Ok(())
        }

        /// a timed send under the simulated clock (a rendezvous channel: a blocking send)
        pub fn send_timeout(&self, t: T, d: std::time::Duration) -> Result<(), SendTimeoutError<T>> {
            if self.capacity() == Some(0) {
                return self.send(t).map_err(|e| SendTimeoutError::Disconnected(e.0));
            }
            let mut item = Some(t);
            let r = timed_wait(d, || match self.try_send(item.take().expect("item")) {
                Ok(()) => Some(Ok(())),
                Err(TrySendError::Disconnected(t)) => Some(Err(t)),
                Err(TrySendError::Full(t)) => {
                    item = Some(t);
                    None
                }
            });
            match r {
                Some(Ok(())) => Ok(()),
                Some(Err(t)) => Err(SendTimeoutError::Disconnected(t)),
                None => Err(SendTimeoutError::Timeout(item.take().expect("item"))),
            }
        }

        pub fn len(&self) -> usize {
            let st = self.ch.st.lock().unwrap();
            st.buf.len() + st.held.len()
        }
        pub fn is_empty(&self) -> bool {
            self.len() == 0
        }
        pub fn is_full(&self) -> bool {
            let st = self.ch.st.lock().unwrap();
            st.cap.map(|c| st.buf.len() >= c).unwrap_or(false)
        }
        pub fn capacity(&self) -> Option<usize> {
            self.ch.st.lock().unwrap().cap
        }
    }

    impl<T> Receiver<T> {
        /// move one pending message from the queue into the receiver-side hold-back buffer (this
        /// frees a slot / completes a rendezvous, exactly as a receive does)
        fn pull(&self, st: &mut State<T>) -> bool {
            match st.buf.pop_front() {
                Some(m) => {
                    if st.cap == Some(0) {
                        st.taken.push(m.0);
                    }
                    st.held.push(m);
                    true
                }
                None => false,
            }
        }

        fn deliver(&self, st: &mut State<T>, idx: usize) -> T {
            let (_, tag, t) = st.held.remove(idx);
            st.delivered += 1;
            let q = st.buf.len() as u32;
            if self.ch.primary {
                let me = task_id();
                ctx::with(|c| {
                    c.arrival.push(tag);
                    c.chanlog.push(ChanEv { ev: "recv".into(), task: me, file: tag, qlen: q });
                    note_state(c, q);
                });
            }
            t
        }

        pub fn recv(&self) -> Result<T, RecvError> {
            let (window, perm) = if self.ch.primary {
                ctx::with(|c| c.knobs.as_ref().map(|k| (k.reorder, k.perm))).flatten().unwrap_or((0, None))
            } else {
                (0, None)
            };
            let mut st = self.ch.st.lock().unwrap();
            loop {
                // reorder fault: hold messages back until `window` are pending (or every sender is
                // gone), then release one chosen by the run's PRNG / by the explicit permutation
                let mut moved = false;
                while (st.held.len() as u64) < (window as u64).max(1) && self.pull(&mut st) {
                    moved = true;
                }
                if moved {
                    self.ch.not_full.notify_all();
                    self.ch.handed_over.notify_all();
                }
                let n = st.held.len();
                if n > 0 && (n as u64 >= (window as u64).max(1) || (st.senders == 0 && st.buf.is_empty())) {
                    let idx = if window == 0 {
                        0
                    } else if let (Some(p), u32::MAX) = (perm, window) {
                        // all messages are held: release in the order given by the Lehmer code `p`
                        // over the held messages sorted by file tag
                        let total = st.delivered + n;
                        st.held.sort_by_key(|m| m.1);
                        lehmer_digit(p, total, total - n).min(n - 1)
                    } else {
                        ctx::with(|c| c.rng.as_mut().map(|r| r.below(n as u64) as usize)).flatten().unwrap_or(0)
                    };
                    if idx != 0 {
                        ctx::fired("chan_reorder");
                    }
                    return Ok(self.deliver(&mut st, idx));
                }
                if n == 0 && st.senders == 0 && st.buf.is_empty() {
                    return Err(RecvError);
                }
                st = self.ch.not_empty.wait(st).unwrap();
            }
        }

        pub fn try_recv(&self) -> Result<T, TryRecvError> {
            let mut st = self.ch.st.lock().unwrap();
            if st.held.is_empty() && self.pull(&mut st) {
                self.ch.not_full.notify_all();
                self.ch.handed_over.notify_all();
            }
            if !st.held.is_empty() {
                return Ok(self.deliver(&mut st, 0));
            }
            if st.senders == 0 {
                Err(TryRecvError::Disconnected)
            } else {
                Err(TryRecvError::Empty)
            }
        }

        /// a timed receive under the simulated clock
        pub fn recv_timeout(&self, d: std::time::Duration) -> Result<T, RecvTimeoutError> {
            match timed_wait(d, || match self.try_recv() {
                Ok(t) => Some(Ok(t)),
                Err(TryRecvError::Disconnected) => Some(Err(RecvTimeoutError::Disconnected)),
                Err(TryRecvError::Empty) => None,
            }) {
                Some(r) => r,
                None => Err(RecvTimeoutError::Timeout),
            }
        }

        pub fn iter(&self) -> Iter<'_, T> {
            Iter { rx: self }
        }
        pub fn try_iter(&self) -> TryIter<'_, T> {
            TryIter { rx: self }
        }
        pub fn len(&self) -> usize {
            let st = self.ch.st.lock().unwrap();
            st.buf.len() + st.held.len()
        }
        pub fn is_empty(&self) -> bool {
            self.len() == 0
        }
        pub fn is_full(&self) -> bool {
            let st = self.ch.st.lock().unwrap();
            st.cap.map(|c| st.buf.len() >= c).unwrap_or(false)
        }
        pub fn capacity(&self) -> Option<usize> {
            self.ch.st.lock().unwrap().cap
        }
    }

    /// digit `pos` (0-based, most significant first) of the Lehmer code of permutation index `p`
    /// over `n` elements: the index to remove from the remaining sorted list.
    pub fn lehmer_digit(p: u64, n: usize, pos: usize) -> usize {
        let mut fact = vec![1u64; n + 1];
        for i in 1..=n {
            fact[i] = fact[i - 1].saturating_mul(i as u64);
        }
        let mut rem = p % fact[n].max(1);
        let mut d = 0usize;
        for i in 0..=pos.min(n.saturating_sub(1)) {
            let f = fact[n - 1 - i];
            d = (rem / f) as usize;
            rem %= f;
        }
        d
    }

    pub struct Iter<'a, T> {
        rx: &'a Receiver<T>,
    }
    impl<T> Iterator for Iter<'_, T> {
        type Item = T;
        fn next(&mut self) -> Option<T> {
            self.rx.recv().ok()
        }
    }
    pub struct TryIter<'a, T> {
        rx: &'a Receiver<T>,
    }
    impl<T> Iterator for TryIter<'_, T> {
        type Item = T;
        fn next(&mut self) -> Option<T> {
            self.rx.try_recv().ok()
        }
    }
    pub struct IntoIter<T> {
        rx: Receiver<T>,
    }
    impl<T> Iterator for IntoIter<T> {
        type Item = T;
        fn next(&mut self) -> Option<T> {
            self.rx.recv().ok()
        }
    }
    impl<T> IntoIterator for Receiver<T> {
        type Item = T;
        type IntoIter = IntoIter<T>;
        fn into_iter(self) -> IntoIter<T> {
            IntoIter { rx: self }
        }
    }
    impl<'a, T> IntoIterator for &'a Receiver<T> {
        type Item = T;
        type IntoIter = Iter<'a, T>;
        fn into_iter(self) -> Iter<'a, T> {
            self.iter()
        }
    }

    pub(crate) fn reset() {
        CHANNELS.with(|c| c.set(0));
    }
}

// ------------------------------------------------------------------------------------------------
// file system
// ------------------------------------------------------------------------------------------------

fn log_op(op: &str, path: &Path, bytes: u64, fault: Option<String>, result: &io::Result<()>) {
    ctx::with(|c| {
        let p = ctx::rel(&c.root, path);
        let result = match result {
            Ok(()) => "ok".to_string(),
            Err(e) => format!("err:{:?}", e.kind()),
        };
        c.oplog.push(FsOp { op: op.to_string(), path: p, bytes, fault, result });
    });
}

fn unit<T>(r: &io::Result<T>) -> io::Result<()> {
    match r {
        Ok(_) => Ok(()),
        Err(e) => Err(io::Error::new(e.kind(), "")),
    }
}

/// what the fault plan says about the next output-side op
enum OutFault {
    None,
    Fail(io::Error, String),
    Short(u32, io::Error, String),
    Crash(u32),
}

fn next_out_fault(mutating: bool) -> OutFault {
    ctx::with(|c| {
        let at = c.out_ops;
        c.out_ops += 1;
        let nth = c.mut_ops;
        if mutating {
            c.mut_ops += 1;
        }
        for f in &c.faults {
            match f {
                Fault::Crash { at: a, keep_permille } if *a == at => {
                    return OutFault::Crash(*keep_permille);
                }
                Fault::Write { nth: n, kind } if mutating && *n == nth => {
                    return OutFault::Fail(kind.to_error(), format!("write_fail:{kind:?}"));
                }
                Fault::ShortWrite { nth: n, keep_permille, kind } if mutating && *n == nth => {
                    return OutFault::Short(*keep_permille, kind.to_error(), format!("short_write:{kind:?}"));
                }
                _ => {}
            }
        }
        OutFault::None
    })
    .unwrap_or(OutFault::None)
}

fn crash_now() -> ! {
    ctx::with(|c| c.crashed = true);
    ctx::fired("crash");
    std::panic::resume_unwind(Box::new(CrashPayload))
}

fn prefix_len(len: usize, permille: u32) -> usize {
    ((len as u64 * permille.min(1000) as u64) / 1000) as usize
}

pub mod fs {
    //! `std::fs` as the hooked call sites see it. Everything not overridden below is std's.
    use super::*;
    pub use std::fs::*;
    use std::io::Write as _;

    /// source-side read (`parse_file_context`)
    pub fn read_to_string<P: AsRef<Path>>(path: P) -> io::Result<String> {
        let path = path.as_ref();
        if !in_sim() {
            return std::fs::read_to_string(path);
        }
        let me = task_id();
        let plan = ctx::with(|c| {
            let rel = ctx::rel(&c.root, path);
            if let Some(t) = c.file_tags.get(&rel) {
                c.last_read.insert(me, *t);
            }
            let mut fail = None;
            let mut slow = 0;
            for f in &c.faults {
                match f {
                    Fault::Read { path: p, kind } if *p == rel => fail = Some(kind.clone()),
                    Fault::SlowRead { path: p, yields } if *p == rel => slow = *yields,
                    _ => {}
                }
            }
            (fail, slow)
        })
        .unwrap_or((None, 0));
        if plan.1 > 0 {
            ctx::fired("slow_read");
            for _ in 0..plan.1 {
                shuttle::thread::sleep(std::time::Duration::from_millis(0));
            }
        }
        if let Some(kind) = plan.0 {
            let r: io::Result<String> = Err(kind.to_error());
            ctx::fired(&format!("read_fail:{kind:?}"));
            log_op("read_src", path, 0, Some(format!("read_fail:{kind:?}")), &unit(&r));
            return r;
        }
        let r = std::fs::read_to_string(path);
        log_op("read_src", path, r.as_ref().map(|s| s.len() as u64).unwrap_or(0), None, &unit(&r));
        r
    }

    /// output-side read (compare before write)
    pub fn read<P: AsRef<Path>>(path: P) -> io::Result<Vec<u8>> {
        let path = path.as_ref();
        if !in_sim() {
            return std::fs::read(path);
        }
        if let OutFault::Crash(_) = next_out_fault(false) {
            log_op("read", path, 0, Some("crash".into()), &Ok(()));
            crash_now();
        }
        // injected failure of the compare-read (the file exists but cannot be read)
        let injected = ctx::with(|c| {
            let nth = c.out_reads;
            c.out_reads += 1;
            c.faults.iter().find_map(|f| match f {
                Fault::OutRead { nth: n, kind } if *n == nth => Some(kind.clone()),
                _ => None,
            })
        })
        .flatten();
        if let Some(kind) = injected {
            if path.exists() {
                ctx::fired(&format!("out_read_fail:{kind:?}"));
                let r: io::Result<Vec<u8>> = Err(kind.to_error());
                log_op("read", path, 0, Some(format!("out_read_fail:{kind:?}")), &unit(&r));
                return r;
            }
        }
        let r = std::fs::read(path);
        log_op("read", path, r.as_ref().map(|b| b.len() as u64).unwrap_or(0), None, &unit(&r));
        r
    }

    pub fn create_dir_all<P: AsRef<Path>>(path: P) -> io::Result<()> {
        let path = path.as_ref();
        if !in_sim() {
            return std::fs::create_dir_all(path);
        }
        match next_out_fault(true) {
            OutFault::Crash(_) => {
                log_op("mkdir", path, 0, Some("crash".into()), &Ok(()));
                crash_now();
            }
            OutFault::Fail(e, name) | OutFault::Short(_, e, name) => {
                ctx::fired(&name);
                let r = Err(e);
                log_op("mkdir", path, 0, Some(name), &unit(&r));
                return r;
            }
            OutFault::None => {}
        }
        let r = std::fs::create_dir_all(path);
        log_op("mkdir", path, 0, None, &r);
        r
    }

    pub fn create_dir<P: AsRef<Path>>(path: P) -> io::Result<()> {
        create_dir_all(path)
    }

    pub fn write<P: AsRef<Path>, C: AsRef<[u8]>>(path: P, contents: C) -> io::Result<()> {
        let path = path.as_ref();
        let data = contents.as_ref();
        if !in_sim() {
            return std::fs::write(path, data);
        }
        match next_out_fault(true) {
            OutFault::Crash(keep) => {
                let n = prefix_len(data.len(), keep);
                let _ = std::fs::write(path, &data[..n]);
                log_op("write", path, n as u64, Some("crash".into()), &Ok(()));
                crash_now();
            }
            OutFault::Fail(e, name) => {
                ctx::fired(&name);
                let r = Err(e);
                log_op("write", path, 0, Some(name), &unit(&r));
                return r;
            }
            OutFault::Short(keep, e, name) => {
                ctx::fired(&name);
                let n = prefix_len(data.len(), keep);
                let _ = std::fs::write(path, &data[..n]);
                let r = Err(e);
                log_op("write", path, n as u64, Some(name), &unit(&r));
                return r;
            }
            OutFault::None => {}
        }
        let r = std::fs::write(path, data);
        log_op("write", path, data.len() as u64, None, &r);
        r
    }

    pub fn remove_file<P: AsRef<Path>>(path: P) -> io::Result<()> {
        let path = path.as_ref();
        if !in_sim() {
            return std::fs::remove_file(path);
        }
        match next_out_fault(true) {
            OutFault::Crash(_) => {
                log_op("remove", path, 0, Some("crash".into()), &Ok(()));
                crash_now();
            }
            OutFault::Fail(e, name) | OutFault::Short(_, e, name) => {
                ctx::fired(&name);
                let r = Err(e);
                log_op("remove", path, 0, Some(name), &unit(&r));
                return r;
            }
            OutFault::None => {}
        }
        let r = std::fs::remove_file(path);
        log_op("remove", path, 0, None, &r);
        r
    }

    pub fn rename<P: AsRef<Path>, Q: AsRef<Path>>(from: P, to: Q) -> io::Result<()> {
        let (from, to) = (from.as_ref(), to.as_ref());
        if !in_sim() {
            return std::fs::rename(from, to);
        }
        match next_out_fault(true) {
            OutFault::Crash(_) => {
                // the process dies right before the rename takes effect
                log_op("rename", to, 0, Some("crash".into()), &Ok(()));
                crash_now();
            }
            OutFault::Fail(e, name) | OutFault::Short(_, e, name) => {
                ctx::fired(&name);
                let r = Err(e);
                log_op("rename", to, 0, Some(name), &unit(&r));
                return r;
            }
            OutFault::None => {}
        }
        let r = std::fs::rename(from, to);
        log_op("rename", to, 0, None, &r);
        r
    }

    pub fn copy<P: AsRef<Path>, Q: AsRef<Path>>(from: P, to: Q) -> io::Result<u64> {
        let r = std::fs::copy(from.as_ref(), to.as_ref());
        if in_sim() {
            log_op("write", to.as_ref(), *r.as_ref().unwrap_or(&0), None, &unit(&r));
        }
        r
    }

    /// `std::fs::File` as the hooked call sites see it (`write_codable_file` streams its output
    /// through one): the same API surface, with creation and writes logged and fault-injectable.
    pub struct File {
        inner: std::fs::File,
        path: std::path::PathBuf,
        short: Option<(u32, io::ErrorKind, String)>,
    }

    fn open_logged(path: &Path, op: &str, mutating: bool, open: impl FnOnce() -> io::Result<std::fs::File>) -> io::Result<File> {
        if !in_sim() {
            return Ok(File { inner: open()?, path: path.to_path_buf(), short: None });
        }
        let mut short = None;
        match next_out_fault(mutating) {
            OutFault::Crash(_) => {
                if mutating {
                    let _ = open();
                }
                log_op(op, path, 0, Some("crash".into()), &Ok(()));
                crash_now();
            }
            OutFault::Fail(e, name) => {
                ctx::fired(&name);
                let r: io::Result<()> = Err(e);
                log_op(op, path, 0, Some(name), &r);
                return Err(r.unwrap_err());
            }
            OutFault::Short(keep, e, name) => short = Some((keep, e.kind(), name)),
            OutFault::None => {}
        }
        let r = open();
        log_op(op, path, 0, None, &unit(&r));
        Ok(File { inner: r?, path: path.to_path_buf(), short })
    }

    impl File {
        pub fn create<P: AsRef<Path>>(path: P) -> io::Result<File> {
            let path = path.as_ref();
            open_logged(path, "create", true, || std::fs::File::create(path))
        }
        pub fn create_new<P: AsRef<Path>>(path: P) -> io::Result<File> {
            let path = path.as_ref();
            open_logged(path, "create", true, || std::fs::File::create_new(path))
        }
        pub fn open<P: AsRef<Path>>(path: P) -> io::Result<File> {
            let path = path.as_ref();
            open_logged(path, "read", false, || std::fs::File::open(path))
        }
        pub fn options() -> OpenOptions {
            OpenOptions::new()
        }
        pub fn metadata(&self) -> io::Result<std::fs::Metadata> {
            self.inner.metadata()
        }
        pub fn set_len(&self, size: u64) -> io::Result<()> {
            let r = self.inner.set_len(size);
            if in_sim() {
                log_op("fwrite", &self.path, size, None, &r);
            }
            r
        }
        pub fn sync_all(&self) -> io::Result<()> {
            self.inner.sync_all()
        }
        pub fn sync_data(&self) -> io::Result<()> {
            self.inner.sync_data()
        }
        pub fn set_modified(&self, time: std::time::SystemTime) -> io::Result<()> {
            self.inner.set_modified(time)
        }
        pub fn set_permissions(&self, perm: std::fs::Permissions) -> io::Result<()> {
            self.inner.set_permissions(perm)
        }
    }

    impl io::Write for File {
        fn write(&mut self, buf: &[u8]) -> io::Result<usize> {
            if let Some((keep, kind, name)) = self.short.take() {
                ctx::fired(&name);
                let n = prefix_len(buf.len(), keep);
                let _ = self.inner.write_all(&buf[..n]);
                let r: io::Result<()> = Err(io::Error::new(kind, "injected short write"));
                log_op("fwrite", &self.path, n as u64, Some(name), &r);
                return Err(r.unwrap_err());
            }
            let r = self.inner.write(buf);
            if in_sim() {
                log_op("fwrite", &self.path, *r.as_ref().unwrap_or(&0) as u64, None, &unit(&r));
            }
            r
        }
        fn flush(&mut self) -> io::Result<()> {
            self.inner.flush()
        }
    }

    impl io::Read for File {
        fn read(&mut self, buf: &mut [u8]) -> io::Result<usize> {
            self.inner.read(buf)
        }
    }

    impl io::Seek for File {
        fn seek(&mut self, pos: io::SeekFrom) -> io::Result<u64> {
            self.inner.seek(pos)
        }
    }

    /// `std::fs::OpenOptions` with the same builder surface; opening for writing is a mutating op.
    #[derive(Clone, Debug)]
    pub struct OpenOptions {
        inner: std::fs::OpenOptions,
        mutating: bool,
        truncating: bool,
        creating: bool,
    }

    impl Default for OpenOptions {
        fn default() -> Self {
            Self::new()
        }
    }

    impl OpenOptions {
        pub fn new() -> Self {
            OpenOptions { inner: std::fs::OpenOptions::new(), mutating: false, truncating: false, creating: false }
        }
        pub fn read(&mut self, v: bool) -> &mut Self {
            self.inner.read(v);
            self
        }
        pub fn write(&mut self, v: bool) -> &mut Self {
            self.inner.write(v);
            self.mutating |= v;
            self
        }
        pub fn append(&mut self, v: bool) -> &mut Self {
            self.inner.append(v);
            self.mutating |= v;
            self
        }
        pub fn truncate(&mut self, v: bool) -> &mut Self {
            self.inner.truncate(v);
            self.mutating |= v;
            self.truncating |= v;
            self
        }
        pub fn create(&mut self, v: bool) -> &mut Self {
            self.inner.create(v);
            self.mutating |= v;
            self.creating |= v;
            self
        }
        pub fn create_new(&mut self, v: bool) -> &mut Self {
            self.inner.create_new(v);
            self.mutating |= v;
            self.creating |= v;
            self
        }
        pub fn open<P: AsRef<Path>>(&self, path: P) -> io::Result<File> {
            let path = path.as_ref();
            let inner = self.inner.clone();
            // opening for writing changes the file by itself only when it truncates or creates it;
            // otherwise the writes that follow are the mutation ("fwrite")
            let changes_file = self.truncating || (self.creating && !path.exists());
            let op = if changes_file { "create" } else if self.mutating { "open_w" } else { "read" };
            open_logged(path, op, self.mutating, || inner.open(path))
        }
    }
}

/// Stand-in for the `std` path root inside one hooked function body
/// (`use verif_rt::shim as std;`): everything is std's except `fs`.
pub mod shim {
    pub use super::fs;
    pub use super::thread;
    pub use std::*;
    /// `std::sync` with the blocking primitives and atomics replaced by the scheduler-owned ones
    pub mod sync {
        pub use shuttle::sync::{atomic, mpsc, Barrier, BarrierWaitResult, Condvar, Mutex, MutexGuard, Once, RwLock, RwLockReadGuard, RwLockWriteGuard};
        pub use std::sync::*;
    }
}

// ------------------------------------------------------------------------------------------------
// walker seam
// ------------------------------------------------------------------------------------------------
pub mod walk {
    use super::*;

    pub fn read_dir(path: &Path) -> io::Result<std::fs::ReadDir> {
        let fail = ctx::with(|c| {
            let rel = ctx::rel(&c.root, path);
            c.faults.iter().find_map(|f| match f {
                Fault::Readdir { path: p, kind } if *p == rel => Some(kind.clone()),
                _ => None,
            })
        })
        .flatten();
        if let Some(kind) = fail {
            ctx::fired(&format!("readdir_fail:{kind:?}"));
            let r: io::Result<()> = Err(kind.to_error());
            log_op("readdir", path, 0, Some(format!("readdir_fail:{kind:?}")), &r);
            return Err(r.unwrap_err());
        }
        let r = std::fs::read_dir(path);
        log_op("readdir", path, 0, None, &unit(&r));
        r
    }

    /// Directory entries in name order: removes the kernel's readdir order as an uncontrolled
    /// input (every visiting order stays reachable through scheduling and work stealing).
    pub fn sorted(rd: std::fs::ReadDir) -> Vec<io::Result<std::fs::DirEntry>> {
        let mut v: Vec<_> = rd.collect();
        v.sort_by(|a, b| match (a, b) {
            (Ok(a), Ok(b)) => a.file_name().cmp(&b.file_name()),
            (Err(_), Ok(_)) => std::cmp::Ordering::Less,
            (Ok(_), Err(_)) => std::cmp::Ordering::Greater,
            (Err(_), Err(_)) => std::cmp::Ordering::Equal,
        });
        v
    }

    pub fn probe_idle_sleep() {
        ctx::probe("idle_sleep");
    }
    pub fn probe_steal() {
        ctx::probe("steal_happened");
    }
}

/// Stand-in for the `crossbeam` crate root (`use verif_rt::shim_crossbeam as crossbeam;`): the
/// channel module is the simulator's, everything else is crossbeam's own.
pub mod shim_crossbeam {
    pub use super::channel;
}

/// number of walker threads for this run (hook H1a)
pub fn walker_threads() -> usize {
    ctx::with(|c| c.knobs.as_ref().map(|k| k.workers)).flatten().unwrap_or(0)
}
