//! Hash-seed seam. std obtains the per-thread `RandomState` keys through the C symbol `getrandom`
//! (weak linkage, so that it can be interposed). The simulator binary defines that symbol: on an
//! invocation's OS thread it returns bytes of the invocation's hash-seed stream, anywhere else it
//! forwards to the kernel. No allocation, hashing or clock on this path.

use std::cell::Cell;

thread_local! {
    static SEED: Cell<u64> = const { Cell::new(0) };
    static CALLS: Cell<u64> = const { Cell::new(0) };
}

/// Arm the seam for the current OS thread (0 = pass through to the kernel).
pub fn set_thread_hash_seed(seed: u64) {
    SEED.with(|s| s.set(seed));
    CALLS.with(|c| c.set(0));
}

pub fn calls() -> u64 {
    CALLS.with(|c| c.get())
}

#[no_mangle]
pub unsafe extern "C" fn getrandom(buf: *mut libc::c_void, len: libc::size_t, flags: libc::c_uint) -> libc::ssize_t {
    let seed = SEED.try_with(|s| s.get()).unwrap_or(0);
    if seed == 0 {
        return libc::syscall(libc::SYS_getrandom, buf, len, flags) as libc::ssize_t;
    }
    let n = CALLS.try_with(|c| { let v = c.get(); c.set(v + 1); v }).unwrap_or(0);
    let mut state = crate::rng::mix(seed ^ crate::rng::mix(n.wrapping_add(0x1234_5678)));
    let out = buf as *mut u8;
    let mut i = 0usize;
    while i < len {
        state = crate::rng::mix(state);
        let bytes = state.to_le_bytes();
        let mut j = 0;
        while j < 8 && i < len {
            *out.add(i) = bytes[j];
            i += 1;
            j += 1;
        }
    }
    len as libc::ssize_t
}

// ---------------------------------------------------------------------------------------------
// Wall-clock seam. std reads the wall clock through the C symbol `clock_gettime`; on an
// invocation's OS thread CLOCK_REALTIME is the invocation's simulated time (so histories can jump
// the clock forwards and backwards between runs), every other clock and thread goes to the kernel.
// ---------------------------------------------------------------------------------------------

thread_local! {
    static WALL: Cell<i64> = const { Cell::new(0) };
    static WALL_READS: Cell<u64> = const { Cell::new(0) };
}

/// Simulated wall-clock time (seconds since the epoch) for the current OS thread; 0 = real clock.
pub fn set_thread_wall_clock(secs: i64) {
    WALL.with(|w| w.set(secs));
    WALL_READS.with(|c| c.set(0));
}

pub fn wall_clock_reads() -> u64 {
    WALL_READS.with(|c| c.get())
}

#[no_mangle]
pub unsafe extern "C" fn clock_gettime(clk: libc::clockid_t, ts: *mut libc::timespec) -> libc::c_int {
    let sim = WALL.try_with(|w| w.get()).unwrap_or(0);
    if sim != 0 && clk == libc::CLOCK_REALTIME && !ts.is_null() {
        let n = WALL_READS.try_with(|c| { let v = c.get(); c.set(v + 1); v }).unwrap_or(0);
        // time advances by a millisecond per reading
        (*ts).tv_sec = sim + (n / 1000) as i64;
        (*ts).tv_nsec = ((n % 1000) * 1_000_000) as i64;
        return 0;
    }
    libc::syscall(libc::SYS_clock_gettime, clk, ts) as libc::c_int
}

