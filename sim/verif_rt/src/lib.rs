#![recursion_limit = "512"]
//! verif_rt: deterministic-simulation runtime for typeshare-cli.
//!
//! The hooked code in /repo (all behind `cfg(typeshare_verif)`) refers to this crate for its
//! threads, channel, file-system calls and walker tuning; `sim_main` is the simulator's driver and
//! replaces the CLI's `main` body in a simulator build.

pub mod ctx;
pub mod hashseed;
pub mod rng;
pub mod sched;
mod shims;

pub mod driver;

pub use shims::{channel, fs, shim, shim_crossbeam, sync, thread, walk, walker_threads};

/// Entry point of a simulator build (hook H4). `run_once` is the CLI's own dispatch, taking the
/// argument vector explicitly; it returns the error chain rendered as text on failure.
pub fn sim_main(run_once: fn(Vec<String>) -> Result<(), String>) -> ! {
    // Distinctive exit statuses: the code under test runs inside this process and may itself call
    // `process::exit` with 0, 1 or 2; the wrapper script maps 40/41/42 back to 0/1/2 and treats
    // everything else as "the process died".
    let code = driver::main(run_once);
    std::process::exit(match code {
        0 => 40,
        1 => 41,
        2 => 42,
        // a batch worker died (abort, stack overflow, exit inside the code under test): pass its
        // status on, the wrapper script probes the runs that were in flight
        other => other,
    })
}
