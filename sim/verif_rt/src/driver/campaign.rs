//! Batch search, known-findings handling, replay, evidence.

use super::minimise::Minimiser;
use super::model::*;
use super::oracle::{evaluate, gen_case, Tier};
use super::stats::Stats;
use crate::rng::mix;
use serde_json::{json, Value};
use std::collections::BTreeMap;
use std::path::{Path, PathBuf};
use std::sync::atomic::{AtomicU64, Ordering};
use std::sync::Mutex;
use std::time::{Duration, Instant};

pub struct CheckArgs {
    pub property: String,
    pub tier: Tier,
    pub seed: u64,
    pub threads: usize,
    /// worker processes of the batch (each with `threads` threads); 1 = the batch runs in this process
    pub procs: usize,
    /// this process is a worker: (offset, stride, result file)
    pub shard: Option<(u64, u64, PathBuf)>,
    pub runs: u64,
    pub max_wall: Duration,
    pub evidence: PathBuf,
    pub known: PathBuf,
    pub replay_dir: PathBuf,
    pub selftest: u64,
    pub minimise_budget: Duration,
    /// directory with hand-written cases (`<property>-*.json`) evaluated before the seeded batch
    pub directed: PathBuf,
    /// the real, unhooked CLI built from /repo's working tree (fidelity tier; never gating)
    pub real_bin: Option<PathBuf>,
    pub fidelity_cases: u64,
}

pub fn scratch_base() -> PathBuf {
    PathBuf::from(format!("/dev/shm/tsverif-{}", std::process::id()))
}

pub fn run_seed(seed: u64, property: &str, i: u64) -> u64 {
    let p = crate::rng::fnv(property.as_bytes());
    mix(mix(seed ^ p).wrapping_add(i.wrapping_mul(0x9E37_79B9_7F4A_7C15)))
}

#[derive(Clone, serde::Serialize, serde::Deserialize)]
struct Found {
    run_index: u64,
    case: Case,
    violation: Violation,
    count: u64,
}

#[derive(serde::Serialize, serde::Deserialize)]
struct Shared {
    stats: Stats,
    found: BTreeMap<String, Found>,
    digests: BTreeMap<u64, u64>,
    samples: Vec<Value>,
    total_violating_runs: u64,
}

fn tier_name(t: Tier) -> &'static str {
    match t {
        Tier::Quick => "quick",
        Tier::Thorough => "thorough",
    }
}

fn outcome_summary(o: &super::exec::Outcome) -> Value {
    json!({
        "result": format!("{:?}", o.class),
        "error": o.err_text,
        "diagnostics": o.diags.iter().map(|d| format!("{}:{}", d.0, d.1)).collect::<Vec<_>>(),
        "arrival_order": o.arrival,
        "scheduler_steps": o.steps,
        "context_switches": o.switches,
        "fs_ops": o.oplog.iter().map(|op| format!("{} {} {}B {} {}", op.op, op.path, op.bytes, op.fault.clone().unwrap_or_default(), op.result)).collect::<Vec<_>>(),
        "faults_fired": o.fired,
        "output_files": o.after.iter().map(|(k, v)| format!("{k} ({} bytes)", v.bytes.len())).collect::<Vec<_>>(),
        "panic_site": if o.panics.is_empty() { Value::Null } else { json!(o.panic_site()) },
    })
}

fn sample_of(case: &Case, r: &super::oracle::EvalResult, run_index: u64) -> Value {
    let ops: Vec<Value> = r
        .expanded
        .ops
        .iter()
        .take(6)
        .map(|i| {
            json!({"role": i.role, "version": i.version, "lang": i.lang, "mode": format!("{:?}", i.mode), "knobs": i.knobs,
                    "hash_seed": i.hash_seed, "schedule": format!("{:?}", i.sched).chars().take(80).collect::<String>(), "faults": i.faults, "extra": i.extra})
        })
        .collect();
    json!({
        "run_index": run_index,
        "notes": case.notes,
        "source_tree_v0": case.versions[0].iter().map(|f| json!({"path": f.path, "kind": format!("{:?}", f.kind), "text": String::from_utf8_lossy(&f.bytes()).chars().take(600).collect::<String>()})).collect::<Vec<_>>(),
        "versions": case.versions.len(),
        "operations": ops,
        "operations_total": r.expanded.ops.len(),
        "outcomes": r.outcomes.iter().take(4).map(outcome_summary).collect::<Vec<_>>(),
        "violations": r.violations.iter().map(|v| v.signature()).collect::<Vec<_>>(),
    })
}

// ------------------------------------------------------------------------------------------------
// known findings
// ------------------------------------------------------------------------------------------------

#[derive(Clone, Debug)]
pub struct Known {
    pub property: String,
    pub signature: String,
    pub description: String,
    pub replay: String,
}

pub fn load_known(path: &Path) -> Result<Vec<Known>, String> {
    let Ok(text) = std::fs::read_to_string(path) else { return Ok(vec![]) };
    let v: Value = serde_json::from_str(&text).map_err(|e| format!("{}: {e}", path.display()))?;
    let mut out = vec![];
    for f in v.get("findings").and_then(|f| f.as_array()).cloned().unwrap_or_default() {
        out.push(Known {
            property: f["property"].as_str().unwrap_or("").to_string(),
            signature: f["signature"].as_str().unwrap_or("").to_string(),
            description: f["description"].as_str().unwrap_or("").to_string(),
            replay: f["replay"].as_str().unwrap_or("").to_string(),
        });
    }
    Ok(out)
}

// ------------------------------------------------------------------------------------------------
// replay
// ------------------------------------------------------------------------------------------------

pub fn load_replay(path: &Path) -> Result<ReplayFile, String> {
    let text = std::fs::read_to_string(path).map_err(|e| format!("{}: {e}", path.display()))?;
    serde_json::from_str(&text).map_err(|e| format!("{}: {e}", path.display()))
}

/// (reproduced same signature, same event digest, message)
pub fn replay(path: &Path, base: &Path) -> Result<(bool, bool, String), String> {
    let rf = load_replay(path)?;
    let r = evaluate(&rf.case, base, "replay");
    let digest = format!("{:016x}", r.event_digest);
    match r.violations.iter().find(|v| v.signature() == rf.signature) {
        Some(v) => {
            if digest != rf.event_digest {
                println!("note: event digest of this replay is {digest} (file records {})", rf.event_digest);
            }
            Ok((true, digest == rf.event_digest, v.message.clone()))
        }
        None => {
            let others: Vec<String> = r.violations.iter().map(|v| v.signature()).collect();
            Ok((false, digest == rf.event_digest, format!("no violation with signature {} (found: {:?})", rf.signature, others)))
        }
    }
}

pub fn replay_cmd(path: &Path) -> i32 {
    // (evaluation changes the working directory)
    let abs = std::fs::canonicalize(path).unwrap_or_else(|_| path.to_path_buf());
    let path = abs.as_path();
    let base = scratch_base();
    let r = replay(path, &base);
    let _ = std::fs::remove_dir_all(&base);
    match r {
        Err(e) => {
            println!("HARNESS-ERROR replay: {e}");
            2
        }
        Ok((true, same_digest, msg)) => {
            let rf = load_replay(path).unwrap();
            println!("REPRODUCED signature={} event_digest_identical={} :: {}", rf.signature, same_digest, msg);
            println!("VIOLATION property={} replay={} class={} detail={}", rf.property, path.display(), rf.class, rf.detail);
            if same_digest {
                1
            } else {
                println!("HARNESS-ERROR replay reproduced the violation but not the identical event log");
                2
            }
        }
        Ok((false, _, msg)) => {
            println!("NOT-REPRODUCED {msg}");
            0
        }
    }
}

// ------------------------------------------------------------------------------------------------
// fidelity tier: the simulated system against the real, unhooked binary (observes executions whose
// scheduling is not controlled, so it decides nothing and never changes the exit code)
// ------------------------------------------------------------------------------------------------

pub struct Fidelity {
    pub compared: u64,
    pub agreed: u64,
    pub mismatches: Vec<String>,
}

pub fn fidelity(property: &str, seed: u64, tier: Tier, n: u64, real_bin: &Path, base: &Path) -> Fidelity {
    use super::exec::{argv_for, run_invocation, snapshot, ResultClass, Scratch};
    let mut f = Fidelity { compared: 0, agreed: 0, mismatches: vec![] };
    let mut sc = Scratch::new(base, "fidelity");
    for i in 0..n {
        let case = gen_case(property, run_seed(seed, property, i), tier);
        let Some(op) = case.ops.first() else { continue };
        let mut inv = op.clone();
        inv.faults.clear();
        inv.fresh_out = true;
        inv.src_age = 0;
        inv.knobs = crate::ctx::Knobs::shipped();
        inv.obstacle = 0;
        if inv.out_sub == super::exec::BARE {
            inv.out_sub.clear();
        }
        let tree = &case.versions[inv.version.min(case.versions.len() - 1)];
        // same-named items in one namespace are emitted in arrival order (known finding): the real
        // binary's uncontrolled schedule may legitimately order them differently
        if has_duplicate_names(tree, &inv.mode) {
            continue;
        }
        let out = sc.out();
        let sim = run_invocation(&mut sc, tree, &inv, &out);
        if !matches!(sim.class, ResultClass::Ok | ResultClass::Err) {
            continue;
        }
        // the real binary, same arguments, its own output location
        let real_out = sc.refout();
        sc.clear_dir(&real_out);
        let cfg_path = sc.root.join("typeshare.toml");
        let argv = argv_for(&inv, &sc.ws(), &real_out, &cfg_path);
        let mut cmd = std::process::Command::new(real_bin);
        cmd.args(&argv[1..]).stdout(std::process::Stdio::null()).stderr(std::process::Stdio::null()).env("RUST_LOG", "off");
        let Ok(mut child) = cmd.spawn() else {
            f.mismatches.push("cannot start the real binary".into());
            break;
        };
        let t0 = Instant::now();
        let status = loop {
            match child.try_wait() {
                Ok(Some(st)) => break Some(st),
                Ok(None) if t0.elapsed() > Duration::from_secs(20) => {
                    let _ = child.kill();
                    let _ = child.wait();
                    break None;
                }
                Ok(None) => std::thread::sleep(Duration::from_millis(2)),
                Err(_) => break None,
            }
        };
        f.compared += 1;
        let real_ok = status.map(|s| s.success());
        let sim_ok = sim.class == ResultClass::Ok;
        let real_files: BTreeMap<String, Vec<u8>> = snapshot(&real_out).into_iter().filter(|(k, _)| !k.ends_with('/')).map(|(k, v)| (k, v.bytes)).collect();
        let agree = match real_ok {
            None => false,
            Some(ok) => ok == sim_ok && (!ok || real_files == sim.out_bytes()),
        };
        if agree {
            f.agreed += 1;
        } else if f.mismatches.len() < 10 {
            f.mismatches.push(format!(
                "run index {i}: simulator {:?} ({} files) vs real binary {:?} ({} files) [{} {:?}]",
                sim.class,
                sim.out_bytes().len(),
                status.map(|s| s.code()),
                real_files.len(),
                inv.lang,
                inv.mode
            ));
        }
    }
    f
}

// ------------------------------------------------------------------------------------------------
// check
// ------------------------------------------------------------------------------------------------

enum WorkerFailure {
    Died(i32),
    Harness(String),
}

#[derive(serde::Serialize, serde::Deserialize)]
struct ShardResult {
    shared: Shared,
    runs_done: u64,
    spins: u32,
}

/// The seeded batch: run indices `offset, offset+stride, ...` below `a.runs` on `a.threads` threads.
fn run_batch(a: &CheckArgs, base: &Path, offset: u64, stride: u64, deadline: Instant) -> (Shared, u64) {
    let shared = Mutex::new(Shared { stats: Stats::default(), found: BTreeMap::new(), digests: BTreeMap::new(), samples: vec![], total_violating_runs: 0 });
    let next = AtomicU64::new(0);
    let done_runs = AtomicU64::new(0);
    std::thread::scope(|s| {
        for tid in 0..a.threads {
            let shared = &shared;
            let next = &next;
            let done_runs = &done_runs;
            s.spawn(move || {
                let mut local = Stats::default();
                let name = format!("{}-t{tid}", a.property);
                loop {
                    let i = offset + next.fetch_add(1, Ordering::SeqCst) * stride;
                    if i >= a.runs || Instant::now() > deadline || super::exec::spin_count() >= 3 {
                        break;
                    }
                    let seed_i = run_seed(a.seed, &a.property, i);
                    let case = gen_case(&a.property, seed_i, a.tier);
                    // remember which run is in flight: if the process dies (stack overflow, abort)
                    // the wrapper script finds the culprit here
                    let _ = std::fs::write(base.join(format!("in-flight-{tid}")), format!("{i}"));
                    let r = evaluate(&case, base, &name);
                    done_runs.fetch_add(1, Ordering::SeqCst);
                    let want_sample = i < 3;
                    let has_v = !r.violations.is_empty();
                    if i < a.selftest || want_sample || has_v {
                        let mut sh = shared.lock().unwrap();
                        if i < a.selftest {
                            sh.digests.insert(i, r.event_digest);
                        }
                        if want_sample {
                            let s = sample_of(&case, &r, i);
                            sh.samples.push(s);
                        }
                        if has_v {
                            sh.total_violating_runs += 1;
                            for v in &r.violations {
                                let e = sh.found.entry(v.signature()).or_insert_with(|| Found {
                                    run_index: i,
                                    case: r.expanded.clone(),
                                    violation: v.clone(),
                                    count: 0,
                                });
                                e.count += 1;
                                if i < e.run_index {
                                    e.run_index = i;
                                    e.case = r.expanded.clone();
                                    e.violation = v.clone();
                                }
                            }
                        }
                    }
                    local.merge(r.stats);
                }
                shared.lock().unwrap().stats.merge(local);
            });
        }
    });
    (shared.into_inner().unwrap(), done_runs.load(Ordering::SeqCst))
}

/// entry point of a worker process
pub fn shard(a: &CheckArgs) -> i32 {
    let Some((offset, stride, out)) = a.shard.clone() else { return 2 };
    let base = scratch_base();
    let _ = std::fs::create_dir_all(&base);
    let (shared, runs_done) = run_batch(a, &base, offset, stride, Instant::now() + a.max_wall);
    let res = ShardResult { shared, runs_done, spins: super::exec::spin_count() };
    let ok = serde_json::to_vec(&res).ok().and_then(|v| std::fs::write(&out, v).ok()).is_some();
    let _ = std::fs::remove_dir_all(&base);
    if ok {
        0
    } else {
        2
    }
}

fn run_batch_in_workers(a: &CheckArgs, base: &Path, deadline: Instant) -> Result<(Shared, u64), WorkerFailure> {
    let exe = std::env::current_exe().map_err(|e| WorkerFailure::Harness(format!("current_exe: {e}")))?;
    let left = deadline.saturating_duration_since(Instant::now()).as_secs().max(1);
    let mut kids = vec![];
    for k in 0..a.procs {
        let out = base.join(format!("shard-{k}.json"));
        let child = std::process::Command::new(&exe)
            .arg("shard")
            .arg(&a.property)
            .args(["--tier", tier_name(a.tier)])
            .args(["--seed", &a.seed.to_string()])
            .args(["--runs", &a.runs.to_string()])
            .args(["--threads", &a.threads.to_string()])
            .args(["--selftest", &a.selftest.to_string()])
            .args(["--max-wall-s", &left.to_string()])
            .args(["--offset", &k.to_string()])
            .args(["--stride", &a.procs.to_string()])
            .arg("--out")
            .arg(&out)
            .stdin(std::process::Stdio::null())
            .spawn()
            .map_err(|e| WorkerFailure::Harness(format!("spawn worker: {e}")))?;
        kids.push((k, child, out));
    }
    let mut merged = Shared { stats: Stats::default(), found: BTreeMap::new(), digests: BTreeMap::new(), samples: vec![], total_violating_runs: 0 };
    let mut runs_done = 0u64;
    let mut died: Option<i32> = None;
    let mut harness: Option<String> = None;
    for (k, mut child, out) in kids {
        let pid = child.id();
        let status = child.wait().map_err(|e| WorkerFailure::Harness(format!("wait worker: {e}")))?;
        let code = status.code().unwrap_or_else(|| 128 + std::os::unix::process::ExitStatusExt::signal(&status).unwrap_or(0));
        // (the simulator binary reports 0/1/2 as 40/41/42)
        if code != 0 && code != 40 {
            // keep what the worker had in flight where the wrapper script looks for it
            let kb = PathBuf::from(format!("/dev/shm/tsverif-{pid}"));
            if let Ok(rd) = std::fs::read_dir(&kb) {
                for e in rd.flatten() {
                    let n = e.file_name().to_string_lossy().into_owned();
                    if n.starts_with("in-flight-") {
                        let _ = std::fs::copy(e.path(), base.join(format!("{n}-w{k}")));
                    }
                }
            }
            let _ = std::fs::remove_dir_all(&kb);
            if code == 2 || code == 42 {
                harness.get_or_insert(format!("batch worker {k} reported a harness error"));
            } else {
                died.get_or_insert(code);
            }
            continue;
        }
        let res: ShardResult = std::fs::read(&out)
            .map_err(|e| e.to_string())
            .and_then(|v| serde_json::from_slice(&v).map_err(|e| e.to_string()))
            .map_err(|e| WorkerFailure::Harness(format!("worker {k} result: {e}")))?;
        let _ = std::fs::remove_file(&out);
        runs_done += res.runs_done;
        super::exec::add_spins(res.spins);
        merged.stats.merge(res.shared.stats);
        merged.digests.extend(res.shared.digests);
        merged.samples.extend(res.shared.samples);
        merged.total_violating_runs += res.shared.total_violating_runs;
        for (sig, f) in res.shared.found {
            match merged.found.get_mut(&sig) {
                None => {
                    merged.found.insert(sig, f);
                }
                Some(e) => {
                    e.count += f.count;
                    if f.run_index < e.run_index {
                        e.run_index = f.run_index;
                        e.case = f.case;
                        e.violation = f.violation;
                    }
                }
            }
        }
    }
    if let Some(c) = died {
        return Err(WorkerFailure::Died(c));
    }
    if let Some(h) = harness {
        return Err(WorkerFailure::Harness(h));
    }
    Ok((merged, runs_done))
}

pub fn check(a: &CheckArgs) -> i32 {
    let t0 = Instant::now();
    let base = scratch_base();
    let _ = std::fs::create_dir_all(&base);
    let mut harness_errors: Vec<String> = vec![];

    // 1. seam completeness guard
    let gen_root = a.known.parent().map(|p| p.join("sim/gen")).unwrap_or_else(|| PathBuf::from("/verif/sim/gen"));
    let unhooked = super::guard::scan_repo(&gen_root);
    for u in &unhooked {
        println!("WARNING unhooked effect site: {u}");
    }

    // 2. known findings of this property: replay each, print KNOWN-FINDING for those that reproduce
    let known = match load_known(&a.known) {
        Ok(k) => k,
        Err(e) => {
            harness_errors.push(e);
            vec![]
        }
    };
    let mut known_lines = vec![];
    let known_dir = a.known.parent().map(|p| p.to_path_buf()).unwrap_or_default();
    for k in known.iter().filter(|k| k.property == a.property) {
        let p = known_dir.join(&k.replay);
        match replay(&p, &base) {
            Ok((true, _, msg)) => {
                let line = format!("KNOWN-FINDING: property={} {} [{}] :: {}", k.property, k.description, k.signature, msg);
                println!("{line}");
                known_lines.push(line);
            }
            Ok((false, _, _)) => {
                println!("note: listed finding {} no longer reproduces (not suppressing anything for it)", k.signature);
            }
            Err(e) => harness_errors.push(format!("known finding replay: {e}")),
        }
    }
    let known_sigs: Vec<String> = known.iter().filter(|k| k.property == a.property).map(|k| k.signature.clone()).collect();

    // 3. batch (in worker processes: one address space per worker keeps the kernel's per-process
    //    memory-map lock out of the way, which otherwise limits the batch to about four cores)
    let deadline = t0 + a.max_wall;
    let (mut sh, runs_done) = if a.procs <= 1 {
        run_batch(a, &base, 0, 1, deadline)
    } else {
        match run_batch_in_workers(a, &base, deadline) {
            Ok(x) => x,
            Err(WorkerFailure::Died(status)) => {
                // a worker died (abort, stack overflow in the code under test): the wrapper script
                // probes the runs that were in flight (copied into this process's scratch area)
                println!("note: a batch worker process died with status {status}");
                return status;
            }
            Err(WorkerFailure::Harness(e)) => {
                println!("HARNESS-ERROR {e}");
                return 2;
            }
        }
    };
    let batch_wall = t0.elapsed().as_secs_f64();

    // 3b. directed scenarios: hand-written cases for conditions the generator reaches rarely
    let mut directed_done = 0u64;
    if let Ok(rd) = std::fs::read_dir(&a.directed) {
        let mut files: Vec<PathBuf> = rd.filter_map(|e| e.ok()).map(|e| e.path()).collect();
        files.sort();
        for (k, f) in files.iter().enumerate() {
            let name = f.file_name().map(|n| n.to_string_lossy().into_owned()).unwrap_or_default();
            if !name.starts_with(&format!("{}-", a.property)) || !name.ends_with(".json") {
                continue;
            }
            let case: Case = match std::fs::read_to_string(f).map_err(|e| e.to_string()).and_then(|t| serde_json::from_str(&t).map_err(|e| e.to_string())) {
                Ok(c) => c,
                Err(e) => {
                    harness_errors.push(format!("directed case {name}: {e}"));
                    continue;
                }
            };
            let r = evaluate(&case, &base, "directed");
            directed_done += 1;
            if !r.violations.is_empty() {
                sh.total_violating_runs += 1;
                for v in &r.violations {
                    let e = sh.found.entry(v.signature()).or_insert_with(|| Found {
                        run_index: 1_000_000_000 + k as u64,
                        case: r.expanded.clone(),
                        violation: v.clone(),
                        count: 0,
                    });
                    e.count += 1;
                }
            }
            sh.stats.merge(r.stats);
        }
    }

    // 4. determinism self-test: re-run the first `selftest` run indices on one thread, other scratch
    //    name, and compare the full event digests
    let mut selftest_mismatch = 0u64;
    let mut selftest_done = 0u64;
    let selftest_n = if super::exec::spin_count() > 0 { 0 } else { a.selftest.min(runs_done) };
    for i in 0..selftest_n {
        let Some(d0) = sh.digests.get(&i).cloned() else { continue };
        let seed_i = run_seed(a.seed, &a.property, i);
        let case = gen_case(&a.property, seed_i, a.tier);
        let r = evaluate(&case, &base, "selftest-rerun");
        selftest_done += 1;
        if r.event_digest != d0 {
            selftest_mismatch += 1;
            harness_errors.push(format!("nondeterminism: run index {i} gave event digest {:016x} in the batch and {:016x} when re-run", d0, r.event_digest));
        }
    }

    // 5. triage: minimise one representative per raw signature, compare with known findings
    let mut reported: BTreeMap<String, (PathBuf, Violation, bool)> = BTreeMap::new();
    let mut suppressed: BTreeMap<String, u64> = BTreeMap::new();
    let mut founds: Vec<Found> = sh.found.values().cloned().collect();
    founds.sort_by_key(|f| f.run_index);
    let max_minimise = 12;
    // overall triage budget: afterwards representatives are reported as found (not minimised)
    let triage_deadline = Instant::now() + a.minimise_budget * 4;
    let max_reported = 25;
    let mut not_reported = 0u64;
    for (n, f) in founds.iter().enumerate() {
        if reported.len() >= max_reported {
            not_reported += 1;
            continue;
        }
        if known_sigs.contains(&f.violation.signature()) {
            *suppressed.entry(f.violation.signature()).or_insert(0) += f.count;
            continue;
        }
        let spin = f.violation.detail.ends_with("uncontrolled_spin");
        let (case, v) = if n < max_minimise && !spin && Instant::now() < triage_deadline {
            let mut m = Minimiser::new(&base, "minimise", &f.violation, a.minimise_budget);
            let (c, v) = m.run(&f.case, &f.violation);
            (c, v)
        } else {
            (f.case.clone(), f.violation.clone())
        };
        // final confirmation in a fresh evaluation (a spinning case is not re-run: every run of it
        // costs SPIN_CPU_SECS and leaks one OS thread)
        if spin {
            let sig = v.signature();
            if reported.contains_key(&sig) {
                continue;
            }
            let rf = ReplayFile {
                format: 1,
                property: a.property.clone(),
                class: v.class.clone(),
                detail: v.detail.clone(),
                signature: sig.clone(),
                message: v.message.clone(),
                seed: a.seed,
                run_index: f.run_index,
                shipped_knobs: false,
                event_digest: "not-recorded-for-spins".into(),
                case: case.clone(),
            };
            let _ = std::fs::create_dir_all(&a.replay_dir);
            let path = a.replay_dir.join(format!("{}-{}-{:016x}.json", a.property, v.class, crate::rng::fnv(sig.as_bytes())));
            let _ = std::fs::write(&path, serde_json::to_string_pretty(&rf).unwrap_or_default());
            println!(
                "VIOLATION property={} replay={} class={} detail={} seed={} run_index={} shipped_knobs=unknown occurrences={} :: {} (not minimised: each run of this case spins for {} CPU seconds)",
                a.property, path.display(), v.class, v.detail, a.seed, f.run_index, f.count, v.message, super::exec::SPIN_CPU_SECS
            );
            reported.insert(sig, (path, v.clone(), false));
            continue;
        }
        let r = evaluate(&case, &base, "confirm");
        let (r, vf) = match r.violations.iter().find(|x| x.signature() == v.signature()).cloned() {
            Some(vf) => (r, vf),
            None => {
                // the minimised case does not reproduce in another scratch area: fall back to the
                // case as found (behaviour that depends on the absolute location, for instance)
                let r0 = evaluate(&f.case, &base, "confirm");
                match r0.violations.iter().find(|x| x.signature() == f.violation.signature()).cloned() {
                    Some(v0) => (r0, v0),
                    None => {
                        println!(
                            "VIOLATION property={} replay=none class={} detail={} seed={} run_index={} occurrences={} :: {} (found in the batch; did not reproduce when the case was re-run in another scratch directory, so no replay file was written)",
                            a.property, f.violation.class, f.violation.detail, a.seed, f.run_index, f.count, f.violation.message
                        );
                        reported.insert(f.violation.signature(), (PathBuf::from("none"), f.violation.clone(), false));
                        continue;
                    }
                }
            }
        };
        let sig = vf.signature();
        if known_sigs.contains(&sig) {
            *suppressed.entry(sig).or_insert(0) += f.count;
            continue;
        }
        if reported.contains_key(&sig) {
            continue;
        }
        let shipped = r.expanded.ops.iter().all(|o| o.role == "ref" || o.knobs.is_shipped());
        let digest = format!("{:016x}", r.event_digest);
        let rf = ReplayFile {
            format: 1,
            property: a.property.clone(),
            class: vf.class.clone(),
            detail: vf.detail.clone(),
            signature: sig.clone(),
            message: vf.message.clone(),
            seed: a.seed,
            run_index: f.run_index,
            shipped_knobs: shipped,
            event_digest: digest.clone(),
            case: r.expanded.clone(),
        };
        let _ = std::fs::create_dir_all(&a.replay_dir);
        let fname = format!("{}-{}-{:016x}.json", a.property, vf.class, crate::rng::fnv(sig.as_bytes()));
        let path = a.replay_dir.join(fname);
        match serde_json::to_string_pretty(&rf) {
            Ok(t) => {
                if let Err(e) = std::fs::write(&path, t) {
                    harness_errors.push(format!("cannot write replay file: {e}"));
                }
            }
            Err(e) => harness_errors.push(format!("cannot serialise replay file: {e}")),
        }
        // the replay file must reproduce
        match replay(&path, &base) {
            Ok((true, true, _)) => {}
            Ok((rep, same, msg)) => harness_errors.push(format!("replay file {} does not replay exactly (reproduced={rep}, same_digest={same}): {msg}", path.display())),
            Err(e) => harness_errors.push(e),
        }
        println!(
            "VIOLATION property={} replay={} class={} detail={} seed={} run_index={} shipped_knobs={} occurrences={} :: {}",
            a.property,
            path.display(),
            vf.class,
            vf.detail,
            a.seed,
            f.run_index,
            if shipped { "yes" } else { "no" },
            f.count,
            vf.message
        );
        reported.insert(sig, (path, vf, shipped));
    }

    if not_reported > 0 {
        println!("note: {not_reported} further raw signatures were found but not reported individually (limit {max_reported} per check run)");
    }

    // 5b. fidelity tier (never gating)
    let fid = match &a.real_bin {
        Some(bin) if a.fidelity_cases > 0 => Some(fidelity(&a.property, a.seed, a.tier, a.fidelity_cases, bin, &base)),
        _ => None,
    };
    if let Some(f) = &fid {
        for m in &f.mismatches {
            println!("WARNING fidelity mismatch: {m}");
        }
        println!("fidelity: {} of {} fault-free invocations agree with the real binary (exit status and output bytes)", f.agreed, f.compared);
    }

    // 6. evidence
    let wall = t0.elapsed().as_secs_f64();
    let st = &sh.stats;
    let mut perms = serde_json::Map::new();
    for (k, set) in &st.perms {
        let f: u64 = (1..=*k as u64).product();
        perms.insert(format!("{k}_messages"), json!({"reached": set.len(), "of": f}));
    }
    let zero_probes: Vec<&str> = EXPECTED_PROBES.iter().filter(|p| st.probes.get(**p).cloned().unwrap_or(0) == 0).cloned().collect();
    sh.samples.sort_by_key(|s| s["run_index"].as_u64().unwrap_or(0));
    let ev = json!({
        "property_id": a.property,
        "tier": tier_name(a.tier),
        "seed": a.seed,
        "level": "exploration",
        "wall_s": wall,
        "violations": reported.len(),
        "coverage": {
            "evaluations": st.invocations,
            "distinct_nontrivial": st.distinct.len(),
            "rule": "evaluations = simulated CLI invocations (real typeshare-cli code under the simulator, one fresh OS thread each). A case is generated from run_seed(VERIF_SEED, property, i); distinct_nontrivial counts distinct (source-tree digest, knobs, hash seed, fault plan, mode, language, extra args, recorded-schedule digest) tuples whose invocation was non-trivial: at least 2 parse results went through the channel, or at least one injected fault fired, or the invocation belongs to a history of 2 or more operations.",
            "samples": sh.samples,
            "exhaustive": false,
            "traces_validated_against_impl": fid.as_ref().map(|f| f.agreed).unwrap_or(0),
            "fidelity": match &fid {
                Some(f) => json!({"compared_with_real_binary": f.compared, "agreed": f.agreed, "mismatches": f.mismatches}),
                None => json!("not run in this tier (thorough tier only)"),
            },
            "simulated_cases": st.cases,
            "generator_rejects": st.rejects,
            "reference_invocations": st.reference_invocations,
            "runs_requested": a.runs,
            "directed_cases_evaluated": directed_done,
            "runs_done": runs_done,
            "runs_per_hour": if batch_wall > 0.0 { (runs_done as f64 / batch_wall * 3600.0) as u64 } else { 0 },
            "invocations_per_hour": if batch_wall > 0.0 { (st.invocations as f64 / batch_wall * 3600.0) as u64 } else { 0 },
            "simulated_time_scheduler_steps": st.steps,
            "context_switches": st.switches,
            "distinct_schedules": st.distinct_schedules.len(),
            "distinct_pipeline_states": st.pipe_states.len(),
            "arrival_permutations_reached": perms,
            "exhaustive_permutation_cases": st.exhaustive_perm_cases,
            "result_classes": st.classes,
            "faults_fired": st.fired,
            "faulted_invocations": st.faulted_invocations,
            "faulted_invocations_reaching_writer": st.faulted_reaching_writer,
            "probes": st.probes,
            "probes_at_zero": zero_probes,
            "oracle_checks": st.oracle_checks,
            "scheduler_kinds": st.sched_kinds,
            "languages": st.langs,
            "modes": st.modes,
            "walker_threads": st.workers.iter().map(|(k, v)| (k.to_string(), *v)).collect::<BTreeMap<_, _>>(),
            "channel_capacity": st.capacity.iter().map(|(k, v)| (k.to_string(), *v)).collect::<BTreeMap<_, _>>(),
            "files_per_tree": st.files_per_tree.iter().map(|(k, v)| (k.to_string(), *v)).collect::<BTreeMap<_, _>>(),
            "operations_per_case": st.ops_per_case.iter().map(|(k, v)| (k.to_string(), *v)).collect::<BTreeMap<_, _>>(),
            "max_simulated_threads": st.max_tasks,
            "max_scheduler_steps_in_one_invocation": st.max_steps,
            "scheduler_step_budget_per_invocation": format!("{} adversarial + max({}, {} per source file) fair", crate::sched::N_ADV, crate::sched::N_FAIR, crate::sched::FAIR_PER_FILE),
            "determinism_selftest": {"runs_re_executed": selftest_done, "event_log_mismatches": selftest_mismatch},
            "violating_runs_before_triage": sh.total_violating_runs,
            "raw_signatures": sh.found.iter().map(|(k, f)| (k.clone(), f.count)).collect::<BTreeMap<_, _>>(),
            "suppressed_by_known_findings": suppressed,
            "known_finding_lines": known_lines,
            "reported": reported.iter().map(|(k, v)| json!({"signature": k, "replay": v.0.display().to_string(), "shipped_knobs": v.2, "message": v.1.message})).collect::<Vec<_>>(),
            "harness_errors": harness_errors,
            "unhooked_effect_sites": unhooked,
            "components": COMPONENTS,
        },
        "assumptions": [
            "shuttle executes one simulated thread at a time and treats every atomic access as sequentially consistent",
            "the walker is ignore 0.4.23's source with the documented seam patch (vendor/ignore-seam.patch), not the compiled crate the shipped binary links",
            "main()'s own body (logger start-up, argument parsing from the process environment) is bypassed through verif_hooks::run_once",
            "sampling over seeds, not enumeration (except the flagged arrival-permutation sub-batch)",
        ],
    });
    if let Some(p) = a.evidence.parent() {
        let _ = std::fs::create_dir_all(p);
    }
    if let Err(e) = std::fs::write(&a.evidence, serde_json::to_string_pretty(&ev).unwrap()) {
        println!("HARNESS-ERROR cannot write evidence: {e}");
        let _ = std::fs::remove_dir_all(&base);
        return 2;
    }
    let _ = std::fs::remove_dir_all(&base);
    println!(
        "summary property={} tier={} seed={} runs={} invocations={} distinct_nontrivial={} violations_reported={} suppressed_known={} wall_s={:.1}",
        a.property,
        tier_name(a.tier),
        a.seed,
        runs_done,
        st.invocations,
        st.distinct.len(),
        reported.len(),
        suppressed.values().sum::<u64>(),
        wall
    );
    // a violation outranks doubts about the harness: code that breaks a property may well behave
    // differently from one scratch directory to the next, which is what the self-test measures
    if !reported.is_empty() {
        for e in &harness_errors {
            println!("WARNING (harness) {e}");
        }
        return 1;
    }
    if !harness_errors.is_empty() {
        for e in &harness_errors {
            println!("HARNESS-ERROR {e}");
        }
        return 2;
    }
    0
}

pub const EXPECTED_PROBES: &[&str] = &[
    "send_after_disconnect",
    "sender_blocked_on_full",
    "collector_exit_with_items_in_flight",
    "collector_exit_with_senders_alive",
    "steal_happened",
    "idle_sleep",
];

pub const COMPONENTS: &[&str] = &[
    "REAL  every module of cli/src and typeshare-core: /repo's working tree copied to sim/gen with one cfg-guarded `use` line per module (tools/seam_inject.py), compiled through shadow manifests, features go+python",
    "REAL  syn, clap, toml, anyhow, itertools and the other dependencies at /repo/Cargo.lock versions",
    "REAL  ignore::WalkParallel: source of ignore 0.4.23 with the seam patch (scheduler-owned scope/sleep/atomics, name-sorted readdir, injectable readdir error)",
    "REAL  crossbeam-deque work-stealing deques inside the walker (non-blocking; atomic between scheduling points)",
    "REAL  std RandomState, keys supplied through the interposed getrandom symbol; wall clock through the interposed clock_gettime symbol",
    "REAL  file system: tmpfs scratch directory under /dev/shm (pass-through seam with op log and fault injection)",
    "STUB  crossbeam::channel::{bounded,unbounded} -> multi-producer multi-consumer queue on the scheduler's Mutex/Condvar + fault layer (delay, reorder, arrival permutation, capacity knob); timed operations do not model time",
    "STUB  std::thread::{spawn,scope,Builder}, std::sync::{Mutex,RwLock,Condvar,Barrier,Once,mpsc,atomic}, sleep -> shuttle (coroutines on one OS thread per invocation, every switch a scheduler decision)",
    "NOT RUN  flexi_logger (a capturing log::Log records WARN/ERROR lines), main()'s own body (verif_hooks::run_once mirrors its dispatch)",
];
