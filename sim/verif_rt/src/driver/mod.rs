//! The simulator's driver: scenario generation, execution, oracles, minimisation, replay, evidence.

pub mod campaign;
pub mod edges_extra;
pub mod exec;
pub mod gen;
pub mod guard;
pub mod minimise;
pub mod model;
pub mod oracle;
pub mod stats;

use exec::RunOnce;
use std::path::PathBuf;
use std::time::Duration;

fn arg_val(args: &[String], name: &str) -> Option<String> {
    args.iter().position(|a| a == name).and_then(|i| args.get(i + 1)).cloned()
}

fn quiet_stderr() {
    if std::env::var_os("VERIF_DEBUG").is_some() {
        return;
    }
    // shuttle prints a banner on every task failure; violations are reported on stdout
    unsafe {
        let p = std::ffi::CString::new("/dev/null").unwrap();
        let fd = libc::open(p.as_ptr(), libc::O_WRONLY);
        if fd >= 0 {
            libc::dup2(fd, 2);
            libc::close(fd);
        }
    }
}

pub fn main(run_once: RunOnce) -> i32 {
    let args: Vec<String> = std::env::args().collect();
    exec::global_init(run_once);
    match args.get(1).map(|s| s.as_str()) {
        Some(cmd @ ("check" | "shard")) => {
            let is_shard = cmd == "shard";
            let Some(property) = args.get(2).cloned() else {
                println!("usage: simcli check <C06|C07|C08|C17> [--tier quick|thorough] [--seed N] [--threads N] [--runs N]");
                return 2;
            };
            if !["C06", "C07", "C08", "C17"].contains(&property.as_str()) {
                println!("HARNESS-ERROR unknown property {property}");
                return 2;
            }
            let tier = match arg_val(&args, "--tier").as_deref() {
                Some("thorough") => oracle::Tier::Thorough,
                _ => oracle::Tier::Quick,
            };
            let seed: u64 = arg_val(&args, "--seed").and_then(|s| s.parse().ok()).unwrap_or(1);
            // 8 worker processes x 2 threads by default; `--threads N --procs 1` is the single-process form
            let threads: usize = arg_val(&args, "--threads").and_then(|s| s.parse().ok()).unwrap_or(2);
            let procs: usize = arg_val(&args, "--procs").and_then(|s| s.parse().ok()).unwrap_or(8);
            let default_runs = default_runs(&property, tier);
            let runs: u64 = arg_val(&args, "--runs").and_then(|s| s.parse().ok()).unwrap_or(default_runs);
            let max_wall = Duration::from_secs(arg_val(&args, "--max-wall-s").and_then(|s| s.parse().ok()).unwrap_or(match tier {
                oracle::Tier::Quick => 240,
                oracle::Tier::Thorough => 2400,
            }));
            let verif = PathBuf::from(arg_val(&args, "--verif-dir").unwrap_or_else(|| "/verif".into()));
            let a = campaign::CheckArgs {
                property: property.clone(),
                tier,
                seed,
                threads,
                procs,
                shard: if is_shard {
                    Some((
                        arg_val(&args, "--offset").and_then(|s| s.parse().ok()).unwrap_or(0),
                        arg_val(&args, "--stride").and_then(|s| s.parse().ok()).unwrap_or(1),
                        PathBuf::from(arg_val(&args, "--out").unwrap_or_default()),
                    ))
                } else {
                    None
                },
                runs,
                max_wall,
                evidence: std::env::var_os("VERIF_EVIDENCE_DIR").map(PathBuf::from).unwrap_or_else(|| verif.join("evidence")).join(format!("{property}.json")),
                known: verif.join("known_findings.json"),
                replay_dir: std::env::var_os("VERIF_REPLAY_DIR").map(PathBuf::from).unwrap_or_else(|| verif.join("replays")),
                selftest: arg_val(&args, "--selftest").and_then(|s| s.parse().ok()).unwrap_or(match tier {
                    oracle::Tier::Quick => 200,
                    oracle::Tier::Thorough => 2000,
                }),
                directed: verif.join("directed"),
                real_bin: arg_val(&args, "--real-bin").map(PathBuf::from),
                fidelity_cases: arg_val(&args, "--fidelity-cases").and_then(|s| s.parse().ok()).unwrap_or(150),
                minimise_budget: Duration::from_secs(match tier {
                    oracle::Tier::Quick => 25,
                    oracle::Tier::Thorough => 120,
                }),
            };
            quiet_stderr();
            if is_shard {
                return campaign::shard(&a);
            }
            campaign::check(&a)
        }
        Some("probe") => {
            // evaluate one run index in this process (used after a crash of the batch process to
            // find out which case kills it); prints the violations it finds, exits 0 if it survives
            let property = args.get(2).cloned().unwrap_or_default();
            let i: u64 = args.get(3).and_then(|s| s.parse().ok()).unwrap_or(0);
            let seed: u64 = arg_val(&args, "--seed").and_then(|s| s.parse().ok()).unwrap_or(1);
            let tier = match arg_val(&args, "--tier").as_deref() {
                Some("thorough") => oracle::Tier::Thorough,
                _ => oracle::Tier::Quick,
            };
            quiet_stderr();
            let base = campaign::scratch_base();
            let case = oracle::gen_case(&property, campaign::run_seed(seed, &property, i), tier);
            if let Some(out) = arg_val(&args, "--write-case") {
                let _ = std::fs::write(out, serde_json::to_string_pretty(&case).unwrap_or_default());
            }
            let r = oracle::evaluate(&case, &base, "probe");
            let _ = std::fs::remove_dir_all(&base);
            println!("probe survived: {} violations", r.violations.len());
            0
        }
        Some("replay") => {
            let Some(p) = args.get(2) else {
                println!("usage: simcli replay <file>");
                return 2;
            };
            quiet_stderr();
            campaign::replay_cmd(&PathBuf::from(p))
        }
        Some("digests") => {
            // determinism proof: print the event-log digest of every run index; run this in two
            // processes with different --threads and diff the outputs
            let property = args.get(2).cloned().unwrap_or_default();
            let seed: u64 = arg_val(&args, "--seed").and_then(|s| s.parse().ok()).unwrap_or(1);
            let threads: usize = arg_val(&args, "--threads").and_then(|s| s.parse().ok()).unwrap_or(16);
            let runs: u64 = arg_val(&args, "--runs").and_then(|s| s.parse().ok()).unwrap_or(1000);
            let tier = match arg_val(&args, "--tier").as_deref() {
                Some("thorough") => oracle::Tier::Thorough,
                _ => oracle::Tier::Quick,
            };
            quiet_stderr();
            let base = campaign::scratch_base();
            let next = std::sync::atomic::AtomicU64::new(0);
            let out = std::sync::Mutex::new(std::collections::BTreeMap::new());
            std::thread::scope(|s| {
                for tid in 0..threads {
                    let (next, out, base, property) = (&next, &out, &base, &property);
                    s.spawn(move || loop {
                        let i = next.fetch_add(1, std::sync::atomic::Ordering::SeqCst);
                        if i >= runs {
                            break;
                        }
                        let case = oracle::gen_case(property, campaign::run_seed(seed, property, i), tier);
                        let r = oracle::evaluate(&case, base, &format!("d{tid}"));
                        let sigs: Vec<String> = r.violations.iter().map(|v| v.signature()).collect();
                        out.lock().unwrap().insert(i, format!("{:016x} {:?}", r.event_digest, sigs));
                    });
                }
            });
            for (i, d) in out.into_inner().unwrap() {
                println!("{i} {d}");
            }
            let _ = std::fs::remove_dir_all(&base);
            0
        }
        Some("eval") => {
            // evaluate a hand-written case file (a `Case` as JSON) and print what the oracle says
            let Some(p) = args.get(2) else {
                println!("usage: simcli eval <case.json>");
                return 2;
            };
            quiet_stderr();
            let text = match std::fs::read_to_string(p) {
                Ok(t) => t,
                Err(e) => {
                    println!("HARNESS-ERROR {e}");
                    return 2;
                }
            };
            let case: model::Case = match serde_json::from_str(&text) {
                Ok(c) => c,
                Err(e) => {
                    println!("HARNESS-ERROR {e}");
                    return 2;
                }
            };
            let base = campaign::scratch_base();
            let r = oracle::evaluate(&case, &base, "eval");
            let _ = std::fs::remove_dir_all(&base);
            for (i, o) in r.outcomes.iter().enumerate() {
                println!("op {i}: {:?} err={:?} arrival={:?} files={:?}", o.class, o.err_text, o.arrival, o.after.keys().collect::<Vec<_>>());
            }
            for v in &r.violations {
                println!("VIOLATION property={} replay={} class={} detail={} :: {}", v.property, p, v.class, v.detail, v.message);
            }
            if r.rejected {
                println!("REJECTED (reference run failed)");
            }
            if r.violations.is_empty() { 0 } else { 1 }
        }
        Some("catalog") => {
            quiet_stderr();
            catalog()
        }
        Some("trace") => {
            // evaluate one run index and print every invocation's event log (debugging aid for
            // determinism doubts: run twice, diff)
            let property = args.get(2).cloned().unwrap_or_default();
            let i: u64 = args.get(3).and_then(|s| s.parse().ok()).unwrap_or(0);
            let seed: u64 = arg_val(&args, "--seed").and_then(|s| s.parse().ok()).unwrap_or(1);
            let name = arg_val(&args, "--name").unwrap_or_else(|| "trace".into());
            let case = oracle::gen_case(&property, campaign::run_seed(seed, &property, i), oracle::Tier::Quick);
            let base = campaign::scratch_base();
            quiet_stderr();
            let r = oracle::evaluate(&case, &base, &name);
            let _ = std::fs::remove_dir_all(&base);
            println!("run {i} digest {:016x} violations {:?}", r.event_digest, r.violations.iter().map(|v| v.signature()).collect::<Vec<_>>());
            for (k, o) in r.outcomes.iter().enumerate() {
                println!("--- outcome {k}: {:?} err={:?} digest={:016x} steps={}", o.class, o.err_text, o.digest(), o.steps);
                for d in &o.diags {
                    println!("  diag {} {}", d.0, d.1);
                }
                for op in &o.oplog {
                    println!("  op {} {} {} {:?} {}", op.op, op.path, op.bytes, op.fault, op.result);
                }
                for c in &o.chanlog {
                    println!("  chan {} task={} file={} q={}", c.ev, c.task, c.file, c.qlen);
                }
                for p in &o.panics {
                    println!("  panic {}", p.location);
                }
                println!("  schedule {:?}", o.schedule);
                for (k, v) in &o.after {
                    println!("  after {k} {:016x}", crate::rng::fnv(&v.bytes));
                }
            }
            0
        }
        Some("show") => {
            // print the generated case of one run index (debugging aid)
            let property = args.get(2).cloned().unwrap_or_default();
            let i: u64 = args.get(3).and_then(|s| s.parse().ok()).unwrap_or(0);
            let seed: u64 = arg_val(&args, "--seed").and_then(|s| s.parse().ok()).unwrap_or(1);
            let case = oracle::gen_case(&property, campaign::run_seed(seed, &property, i), oracle::Tier::Quick);
            println!("{}", serde_json::to_string_pretty(&case).unwrap());
            0
        }
        _ => {
            println!("usage: simcli check|replay|catalog|show ...");
            2
        }
    }
}

fn default_runs(property: &str, tier: oracle::Tier) -> u64 {
    match (property, tier) {
        ("C06", oracle::Tier::Quick) => 20_000,
        ("C06", oracle::Tier::Thorough) => 500_000,
        ("C07", oracle::Tier::Quick) => 100_000,
        ("C07", oracle::Tier::Thorough) => 3_000_000,
        ("C08", oracle::Tier::Quick) => 50_000,
        ("C08", oracle::Tier::Thorough) => 1_500_000,
        ("C17", oracle::Tier::Quick) => 30_000,
        ("C17", oracle::Tier::Thorough) => 700_000,
        _ => 1000,
    }
}

/// Run every catalogue entry (C07 edges, C08 poisons) alone, per language and mode, under the
/// baseline schedule, and print what the tool does with it.
fn catalog() -> i32 {
    use crate::ctx::Knobs;
    use crate::sched::SchedSpec;
    use model::*;
    let base = campaign::scratch_base();
    let mut sc = exec::Scratch::new(&base, "catalog");
    let helper = SrcFile::text("alpha/src/lib.rs", vec!["#[typeshare]\npub struct Helper { pub x: u32 }\n".into()]);
    let mut entries: Vec<(String, SrcFile)> = vec![];
    for e in gen::all_edges().iter() {
        entries.push((
            format!("edge:{}", e.id),
            SrcFile { path: "alpha/src/e.rs".into(), kind: e.kind.clone(), chunks: vec![e.chunk.to_string()], raw_hex: e.raw_hex.to_string() },
        ));
    }
    for p in gen::POISONS {
        entries.push((format!("poison:{}", p.id), SrcFile::text("alpha/src/e.rs", vec![p.poison.to_string()])));
        if let Some(s) = p.skipped {
            entries.push((format!("skipped:{}", p.id), SrcFile::text("alpha/src/e.rs", vec![s.to_string()])));
        }
    }
    for (name, f) in entries {
        let tree = vec![helper.clone(), f];
        let mut line = format!("{name:42}");
        for lang in LANGS {
            for mode in [Mode::File, Mode::Folder] {
                let inv = Inv {
                    version: 0,
                    lang: lang.to_string(),
                    mode: mode.clone(),
                    extra: vec![],
                    config: "[go]\npackage = \"p\"\n[scala]\npackage = \"p\"\n[kotlin]\npackage = \"p\"\n".into(),
                    knobs: Knobs { workers: 1, ..Knobs::shipped() },
                    hash_seed: 0,
                    sched: SchedSpec::Sticky,
                    faults: vec![],
                    fresh_out: true,
                    role: String::new(),
                    src_age: 0,
                    roots: vec![],
                    out_sub: String::new(),
                    obstacle: 0,
                    wall_clock: 0,
                };
                let out = sc.out();
                let o = exec::run_invocation(&mut sc, &tree, &inv, &out);
                let c = match o.class {
                    exec::ResultClass::Ok => "ok".to_string(),
                    exec::ResultClass::Err => "ERR".to_string(),
                    exec::ResultClass::Panic => format!("PANIC@{}", o.panic_site()),
                    other => format!("{other:?}"),
                };
                line.push_str(&format!(" {}{}={c}", &lang[..2], if mode == Mode::File { "1" } else { "N" }));
            }
        }
        println!("{line}");
    }
    drop(sc);
    let _ = std::fs::remove_dir_all(&base);
    0
}
