//! The simulator's driver: scenario generation, execution, oracles, minimisation, replay, evidence.

pub mod exec;
pub mod model;

use exec::RunOnce;

pub fn main(run_once: RunOnce) -> i32 {
    let args: Vec<String> = std::env::args().collect();
    exec::global_init(run_once);
    match args.get(1).map(|s| s.as_str()) {
        Some("smoke") => smoke(),
        _ => {
            eprintln!("usage: simcli smoke");
            2
        }
    }
}

fn smoke() -> i32 {
    use crate::ctx::Knobs;
    use crate::sched::SchedSpec;
    use model::*;
    let tree: Tree = vec![
        SrcFile::text("a/src/lib.rs", vec!["#[typeshare]\npub struct A { pub x: u32 }\n".into()]),
        SrcFile::text("a/src/b.rs", vec!["#[typeshare]\npub struct B { pub a: Vec<A> }\n#[typeshare]\npub const X: u32 = 1;\n".into()]),
        SrcFile::text("a/src/c.rs", vec!["#[typeshare]\npub const Y: u32 = 2;\n".into()]),
    ];
    let base = std::path::PathBuf::from("/dev/shm/tsverif-smoke");
    let mut sc = exec::Scratch::new(&base, "r0");
    let mut outs = std::collections::BTreeSet::new();
    for seed in 0..200u64 {
        let inv = Inv {
            version: 0,
            lang: "typescript".into(),
            mode: Mode::File,
            extra: vec![],
            config: String::new(),
            knobs: Knobs { workers: 1 + (seed % 4) as usize, ..Knobs::shipped() },
            hash_seed: seed,
            sched: SchedSpec::Random { seed },
            faults: vec![],
            fresh_out: true,
            role: String::new(),
        };
        let out = sc.out();
        let o = exec::run_invocation(&mut sc, &tree, &inv, &out);
        if seed < 3 {
            println!("{:?} err={:?} diags={:?} steps={} arrival={:?} hash_calls={} panics={:?}", o.class, o.err_text, o.diags, o.steps, o.arrival, o.hash_calls, o.panics);
            for (k, v) in &o.after {
                println!("--- {k}\n{}", String::from_utf8_lossy(&v.bytes));
            }
        }
        outs.insert(o.out_bytes());
    }
    println!("distinct outputs: {}", outs.len());
    0
}
