//! Mergeable coverage statistics: everything the evidence file reports is counted here, per run.

use super::exec::{Outcome, ResultClass};
use super::model::*;
use crate::rng::{fnv, fnv_more};
use std::collections::{BTreeMap, BTreeSet, HashSet};

#[derive(Default, Clone, serde::Serialize, serde::Deserialize)]
pub struct Stats {
    pub cases: u64,
    pub rejects: u64,
    pub invocations: u64,
    pub reference_invocations: u64,
    pub steps: u64,
    pub switches: u64,
    pub classes: BTreeMap<String, u64>,
    pub fired: BTreeMap<String, u64>,
    pub probes: BTreeMap<String, u64>,
    pub sched_kinds: BTreeMap<String, u64>,
    pub langs: BTreeMap<String, u64>,
    pub modes: BTreeMap<String, u64>,
    pub workers: BTreeMap<usize, u64>,
    pub capacity: BTreeMap<usize, u64>,
    pub files_per_tree: BTreeMap<usize, u64>,
    pub ops_per_case: BTreeMap<usize, u64>,
    /// arrival permutations reached, per number of messages k (k <= 6)
    pub perms: BTreeMap<usize, BTreeSet<Vec<u32>>>,
    pub exhaustive_perm_cases: u64,
    pub pipe_states: BTreeSet<(u32, u32, bool)>,
    pub distinct: HashSet<u64>,
    pub distinct_schedules: HashSet<u64>,
    pub faulted_invocations: u64,
    pub faulted_reaching_writer: u64,
    pub max_tasks: usize,
    #[serde(default)]
    pub max_steps: usize,
    pub oracle_checks: BTreeMap<String, u64>,
}

impl Stats {
    pub fn merge(&mut self, o: Stats) {
        self.cases += o.cases;
        self.rejects += o.rejects;
        self.invocations += o.invocations;
        self.reference_invocations += o.reference_invocations;
        self.steps += o.steps;
        self.switches += o.switches;
        for (k, v) in o.classes {
            *self.classes.entry(k).or_insert(0) += v;
        }
        for (k, v) in o.fired {
            *self.fired.entry(k).or_insert(0) += v;
        }
        for (k, v) in o.probes {
            *self.probes.entry(k).or_insert(0) += v;
        }
        for (k, v) in o.sched_kinds {
            *self.sched_kinds.entry(k).or_insert(0) += v;
        }
        for (k, v) in o.langs {
            *self.langs.entry(k).or_insert(0) += v;
        }
        for (k, v) in o.modes {
            *self.modes.entry(k).or_insert(0) += v;
        }
        for (k, v) in o.workers {
            *self.workers.entry(k).or_insert(0) += v;
        }
        for (k, v) in o.capacity {
            *self.capacity.entry(k).or_insert(0) += v;
        }
        for (k, v) in o.files_per_tree {
            *self.files_per_tree.entry(k).or_insert(0) += v;
        }
        for (k, v) in o.ops_per_case {
            *self.ops_per_case.entry(k).or_insert(0) += v;
        }
        for (k, v) in o.perms {
            self.perms.entry(k).or_default().extend(v);
        }
        for (k, v) in o.oracle_checks {
            *self.oracle_checks.entry(k).or_insert(0) += v;
        }
        self.exhaustive_perm_cases += o.exhaustive_perm_cases;
        self.pipe_states.extend(o.pipe_states);
        self.distinct.extend(o.distinct);
        self.distinct_schedules.extend(o.distinct_schedules);
        self.faulted_invocations += o.faulted_invocations;
        self.faulted_reaching_writer += o.faulted_reaching_writer;
        self.max_tasks = self.max_tasks.max(o.max_tasks);
        self.max_steps = self.max_steps.max(o.max_steps);
    }

    pub fn check(&mut self, name: &str) {
        *self.oracle_checks.entry(name.to_string()).or_insert(0) += 1;
    }

    pub fn record(&mut self, tree_digest: u64, nfiles: usize, inv: &Inv, o: &Outcome, history_len: usize, reference: bool) {
        self.invocations += 1;
        if reference {
            self.reference_invocations += 1;
        }
        self.steps += o.steps as u64;
        self.switches += o.switches as u64;
        *self.classes.entry(format!("{:?}", o.class)).or_insert(0) += 1;
        for (k, v) in &o.fired {
            *self.fired.entry(k.clone()).or_insert(0) += v;
        }
        for (k, v) in &o.probes {
            *self.probes.entry(k.to_string()).or_insert(0) += v;
        }
        let sk = match &inv.sched {
            crate::sched::SchedSpec::Random { .. } => "random".to_string(),
            crate::sched::SchedSpec::Pct { depth, .. } => format!("pct{depth}"),
            crate::sched::SchedSpec::Sticky => "sticky".to_string(),
            crate::sched::SchedSpec::Replay { .. } => "replay".to_string(),
        };
        *self.sched_kinds.entry(sk).or_insert(0) += 1;
        *self.langs.entry(inv.lang.clone()).or_insert(0) += 1;
        *self.modes.entry(format!("{:?}", inv.mode)).or_insert(0) += 1;
        *self.workers.entry(inv.knobs.workers).or_insert(0) += 1;
        *self.capacity.entry(inv.knobs.capacity).or_insert(0) += 1;
        *self.files_per_tree.entry(nfiles).or_insert(0) += 1;
        if !o.arrival.is_empty() && o.arrival.len() <= 6 && o.class == ResultClass::Ok {
            // arrival order as a permutation: rank of each file tag among the tags that arrived
            let mut sorted = o.arrival.clone();
            sorted.sort_unstable();
            let perm: Vec<u32> = o.arrival.iter().map(|t| sorted.iter().position(|s| s == t).unwrap_or(0) as u32).collect();
            self.perms.entry(o.arrival.len()).or_default().insert(perm);
        }
        self.pipe_states.extend(o.pipe_states.iter().cloned());
        self.max_tasks = self.max_tasks.max(o.max_tasks);
        self.max_steps = self.max_steps.max(o.steps);
        let mut sd = fnv(b"sched");
        for s in &o.schedule {
            sd = fnv_more(sd, &s.to_le_bytes());
        }
        self.distinct_schedules.insert(sd ^ tree_digest);
        // workload dimensions that are faults by construction (they "fire" whenever configured)
        let mut bump = |k: &str| *self.fired.entry(k.to_string()).or_insert(0) += 1;
        match inv.src_age {
            1 => bump("clock_skew:sources_older_than_outputs"),
            2 => bump("clock_skew:sources_from_the_future"),
            _ => {}
        }
        if !inv.roots.is_empty() {
            bump("several_cli_roots");
        }
        if !inv.out_sub.is_empty() {
            bump("nested_output_path");
        }
        let any_fired = !o.fired.is_empty() || inv.src_age != 0;
        if !inv.faults.is_empty() {
            self.faulted_invocations += 1;
            if o.oplog.iter().any(|op| op.op == "read" || op.op == "write" || op.op == "create" || op.op == "mkdir") {
                self.faulted_reaching_writer += 1;
            }
        }
        let nontrivial = o.arrival.len() >= 2 || any_fired || history_len >= 2;
        if nontrivial {
            let mut h = tree_digest;
            h = fnv_more(h, format!("{:?}|{}|{:?}|{:?}|{}|{:?}", inv.knobs, inv.hash_seed, inv.faults, inv.mode, inv.lang, inv.extra).as_bytes());
            h = fnv_more(h, &sd.to_le_bytes());
            self.distinct.insert(h);
        }
    }
}

pub fn tree_digest(t: &Tree) -> u64 {
    let mut h = fnv(b"tree");
    for f in t {
        h = fnv_more(h, f.path.as_bytes());
        h = fnv_more(h, &f.bytes());
    }
    h
}
