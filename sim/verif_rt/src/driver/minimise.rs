//! Delta-debugging minimiser: shrink a failing case while a violation of the same family persists.
//! Order: operations, faults, files, chunks, knobs -> shipped values, schedules -> recorded/sticky.

use super::model::*;
use super::oracle::{evaluate, EvalResult};
use crate::ctx::Knobs;
use crate::sched::SchedSpec;
use std::path::Path;
use std::time::{Duration, Instant};

pub fn family(class: &str) -> String {
    if class.starts_with("DIFF_") {
        "DIFF".to_string()
    } else {
        class.to_string()
    }
}

pub struct Minimiser<'a> {
    pub base: &'a Path,
    pub name: String,
    pub target_family: String,
    /// for PANIC: the panic site/message must stay the same
    pub target_detail: Option<String>,
    pub deadline: Instant,
    pub evals: u64,
}

impl<'a> Minimiser<'a> {
    pub fn new(base: &'a Path, name: &str, v: &Violation, budget: Duration) -> Self {
        Minimiser {
            base,
            name: name.to_string(),
            target_family: family(&v.class),
            target_detail: if v.class == "PANIC" { Some(v.detail.clone()) } else { None },
            deadline: Instant::now() + budget,
            evals: 0,
        }
    }

    fn matches(&self, v: &Violation) -> bool {
        family(&v.class) == self.target_family && self.target_detail.as_ref().map(|d| *d == v.detail).unwrap_or(true)
    }

    /// Some(result) if the candidate still shows the violation
    pub fn fails(&mut self, c: &Case) -> Option<(EvalResult, Violation)> {
        if Instant::now() > self.deadline {
            return None;
        }
        self.evals += 1;
        let r = evaluate(c, self.base, &self.name);
        let v = r.violations.iter().find(|v| self.matches(v)).cloned()?;
        Some((r, v))
    }

    /// with a structural change the old schedule may not fit any more: search a few schedule seeds
    fn fails_with_research(&mut self, c: &Case, tries: u64) -> Option<Case> {
        if self.fails(c).is_some() {
            return Some(c.clone());
        }
        let has_seeded = c.ops.iter().any(|o| !matches!(o.sched, SchedSpec::Sticky));
        if !has_seeded {
            return None;
        }
        for t in 0..tries {
            let mut c2 = c.clone();
            for (i, o) in c2.ops.iter_mut().enumerate() {
                if !matches!(o.sched, SchedSpec::Sticky) && o.role != "ref" {
                    o.sched = SchedSpec::Random { seed: 0xD00D ^ (t * 7919 + i as u64) };
                }
            }
            if self.fails(&c2).is_some() {
                return Some(c2);
            }
        }
        None
    }

    pub fn run(&mut self, start: &Case, v0: &Violation) -> (Case, Violation) {
        let mut cur = start.clone();
        let mut curv = v0.clone();
        // 0. cut the history after the violating op
        if curv.op_index + 1 < cur.ops.len() {
            let mut c = cur.clone();
            c.ops.truncate(curv.op_index + 1);
            if let Some((_, v)) = self.fails(&c) {
                cur = c;
                curv = v;
            }
        }
        // 0b. only the violating op (plus the reference op of C06)
        if cur.ops.len() > 2 {
            let mut c = cur.clone();
            let last = c.ops[curv.op_index.min(c.ops.len() - 1)].clone();
            if cur.property == "C06" {
                c.ops.truncate(1);
            } else {
                c.ops.clear();
            }
            c.ops.push(last);
            if let Some((_, v)) = self.fails(&c) {
                cur = c;
                curv = v;
            }
        }
        let mut progress = true;
        let mut rounds = 0;
        while progress && rounds < 6 && Instant::now() < self.deadline {
            progress = false;
            rounds += 1;
            // 1. drop operations (never the reference op of C06 at index 0)
            let keep_first = cur.property == "C06";
            let mut i = cur.ops.len();
            while i > 0 {
                i -= 1;
                if cur.ops.len() <= 1 || (keep_first && i == 0) {
                    continue;
                }
                let mut c = cur.clone();
                c.ops.remove(i);
                if let Some((_, v)) = self.fails(&c) {
                    cur = c;
                    curv = v;
                    progress = true;
                }
            }
            // 1b. drop pre-existing output files, reset clock skew
            let mut pi = cur.preseed.len();
            while pi > 0 {
                pi -= 1;
                let mut c = cur.clone();
                c.preseed.remove(pi);
                if let Some((_, v)) = self.fails(&c) {
                    cur = c;
                    curv = v;
                    progress = true;
                }
            }
            for oi in 0..cur.ops.len() {
                if cur.ops[oi].src_age != 0 {
                    let mut c = cur.clone();
                    c.ops[oi].src_age = 0;
                    if let Some((_, v)) = self.fails(&c) {
                        cur = c;
                        curv = v;
                        progress = true;
                    }
                }
            }
            // 2. drop faults
            for oi in 0..cur.ops.len() {
                let mut fi = cur.ops[oi].faults.len();
                while fi > 0 {
                    fi -= 1;
                    let mut c = cur.clone();
                    c.ops[oi].faults.remove(fi);
                    if let Some((_, v)) = self.fails(&c) {
                        cur = c;
                        curv = v;
                        progress = true;
                    }
                }
            }
            // 3. drop files (from every version that has them)
            let mut paths: Vec<String> = cur.versions.iter().flat_map(|t| t.iter().map(|f| f.path.clone())).collect();
            paths.sort();
            paths.dedup();
            // (C06 re-partitions hold the same items in other files: dropping a path would remove
            // different items per version, so there only chunks are dropped, by item identity)
            let by_path = !(cur.property == "C06" && cur.versions.len() > 1);
            for p in paths.iter().rev().filter(|_| by_path) {
                let mut c = cur.clone();
                for t in c.versions.iter_mut() {
                    t.retain(|f| &f.path != p);
                }
                if c.versions.iter().any(|t| t.is_empty()) {
                    continue;
                }
                if let Some(c2) = self.fails_with_research(&c, 16) {
                    if let Some((_, v)) = self.fails(&c2) {
                        cur = c2;
                        curv = v;
                        progress = true;
                    }
                }
            }
            // 4. drop chunks
            for vi in 0..cur.versions.len() {
                for fi in 0..cur.versions[vi].len() {
                    let mut ci = cur.versions[vi][fi].chunks.len();
                    while ci > 0 {
                        ci -= 1;
                        let mut c = cur.clone();
                        let removed = c.versions[vi][fi].chunks.remove(ci);
                        // remove the same item from the other versions, too, wherever it lives there
                        let key = item_key(&removed);
                        for (vj, t) in c.versions.iter_mut().enumerate() {
                            if vj == vi {
                                continue;
                            }
                            'files: for f in t.iter_mut() {
                                if let Some(p) = f.chunks.iter().position(|x| item_key(x) == key) {
                                    f.chunks.remove(p);
                                    break 'files;
                                }
                            }
                        }
                        if let Some(c2) = self.fails_with_research(&c, 8) {
                            if let Some((_, v)) = self.fails(&c2) {
                                cur = c2;
                                curv = v;
                                progress = true;
                            }
                        }
                    }
                }
            }
            // 5. knobs back to shipped values, one at a time; hash seed to 0; extra args away
            for oi in 0..cur.ops.len() {
                if cur.ops[oi].role == "ref" {
                    continue;
                }
                let shipped = Knobs::shipped();
                let cands: Vec<Box<dyn Fn(&mut Inv)>> = vec![
                    Box::new(|o: &mut Inv| o.knobs.reorder = 0),
                    Box::new(|o: &mut Inv| o.knobs.perm = None),
                    Box::new(|o: &mut Inv| o.knobs.delay_max = 0),
                    Box::new(move |o: &mut Inv| o.knobs.capacity = shipped.capacity),
                    Box::new(|o: &mut Inv| o.knobs.workers = 1),
                    Box::new(|o: &mut Inv| o.knobs.workers = 2),
                    Box::new(|o: &mut Inv| o.hash_seed = 0),
                    Box::new(|o: &mut Inv| o.extra.clear()),
                    Box::new(|o: &mut Inv| o.sched = SchedSpec::Sticky),
                ];
                for f in cands {
                    let mut c = cur.clone();
                    f(&mut c.ops[oi]);
                    if c.ops[oi] == cur.ops[oi] {
                        continue;
                    }
                    // C06: keep perm only meaningful with reorder == MAX
                    if c.ops[oi].knobs.perm.is_some() && c.ops[oi].knobs.reorder != u32::MAX {
                        c.ops[oi].knobs.perm = None;
                    }
                    if let Some(c2) = self.fails_with_research(&c, 24) {
                        if let Some((_, v)) = self.fails(&c2) {
                            cur = c2;
                            curv = v;
                            progress = true;
                        }
                    }
                }
            }
        }
        // 6. schedules: replace seeds by the recorded task-id sequence, then shorten it
        if let Some((r, v)) = self.fails(&cur) {
            let mut c = r.expanded.clone();
            let n = c.ops.len().min(r.outcomes.len());
            for i in 0..n {
                if !matches!(c.ops[i].sched, SchedSpec::Sticky) {
                    c.ops[i].sched = SchedSpec::Replay { steps: r.outcomes[i].schedule.clone() };
                }
            }
            if let Some((_, v2)) = self.fails(&c) {
                cur = c;
                curv = v2;
                // shorten recorded prefixes (the scheduler continues with "stay on current task")
                for i in 0..cur.ops.len() {
                    loop {
                        let SchedSpec::Replay { steps } = &cur.ops[i].sched else { break };
                        if steps.is_empty() {
                            break;
                        }
                        let mut cut = None;
                        for frac in [0usize, 1, 2, 3] {
                            let keep = steps.len() * frac / 4;
                            if keep == steps.len() {
                                continue;
                            }
                            let mut c = cur.clone();
                            c.ops[i].sched = SchedSpec::Replay { steps: steps[..keep].to_vec() };
                            if let Some((_, v3)) = self.fails(&c) {
                                cut = Some((c, v3));
                                break;
                            }
                        }
                        match cut {
                            Some((c, v3)) => {
                                cur = c;
                                curv = v3;
                            }
                            None => break,
                        }
                    }
                }
            } else {
                cur = r.expanded.clone();
                curv = v;
            }
        }
        // drop versions no op refers to
        let used: std::collections::BTreeSet<usize> = cur.ops.iter().map(|o| o.version).collect();
        let map: Vec<Option<usize>> = {
            let mut next = 0;
            (0..cur.versions.len())
                .map(|i| {
                    if used.contains(&i) {
                        next += 1;
                        Some(next - 1)
                    } else {
                        None
                    }
                })
                .collect()
        };
        let mut c = cur.clone();
        c.versions = cur.versions.iter().enumerate().filter(|(i, _)| used.contains(i)).map(|(_, t)| t.clone()).collect();
        for o in c.ops.iter_mut() {
            if let Some(Some(n)) = map.get(o.version) {
                o.version = *n;
            }
        }
        // (C08 keeps its convention that versions[0] is the tree without the construct)
        if !c.versions.is_empty() && cur.property != "C08" {
            if let Some((_, v)) = self.fails(&c) {
                cur = c;
                curv = v;
            }
        }
        (cur, curv)
    }
}
