//! Workload generator: small workspaces of `#[typeshare]`-annotated Rust, their edited versions,
//! and the fixed catalogues of edge inputs (C07) and unsupported constructs (C08).
//!
//! The items are syntactically ordinary on purpose: this is the workload of a simulator, not a
//! grammar explorer.

use super::model::*;
use crate::rng::Rng;

#[derive(Clone, Debug, PartialEq)]
pub enum Ty {
    Prim(&'static str),
    Opt(Box<Ty>),
    Vec(Box<Ty>),
    Map(Box<Ty>),
    Ref(String),
    /// reference to a generic item with type arguments
    Generic(String, Vec<Ty>),
    Unit,
}

impl Ty {
    pub fn render(&self) -> String {
        match self {
            Ty::Prim(p) => p.to_string(),
            Ty::Opt(t) => format!("Option<{}>", t.render()),
            Ty::Vec(t) => format!("Vec<{}>", t.render()),
            Ty::Map(t) => format!("HashMap<String, {}>", t.render()),
            Ty::Ref(n) => n.clone(),
            Ty::Generic(n, args) => format!("{n}<{}>", args.iter().map(|a| a.render()).collect::<Vec<_>>().join(", ")),
            Ty::Unit => "()".to_string(),
        }
    }
    pub fn refs(&self, out: &mut Vec<String>) {
        match self {
            Ty::Opt(t) | Ty::Vec(t) | Ty::Map(t) => t.refs(out),
            Ty::Ref(n) => out.push(n.clone()),
            Ty::Generic(n, args) => {
                out.push(n.clone());
                for a in args {
                    a.refs(out);
                }
            }
            _ => {}
        }
    }
    fn rename_ref(&mut self, from: &str, to: &str) {
        match self {
            Ty::Opt(t) | Ty::Vec(t) | Ty::Map(t) => t.rename_ref(from, to),
            Ty::Ref(n) if n == from => *n = to.to_string(),
            Ty::Generic(n, args) => {
                if n == from {
                    *n = to.to_string();
                }
                for a in args.iter_mut() {
                    a.rename_ref(from, to);
                }
            }
            _ => {}
        }
    }
    fn has_unit(&self) -> bool {
        match self {
            Ty::Opt(t) | Ty::Vec(t) | Ty::Map(t) => t.has_unit(),
            Ty::Generic(_, args) => args.iter().any(|a| a.has_unit()),
            Ty::Unit => true,
            _ => false,
        }
    }
}

#[derive(Clone, Debug, PartialEq)]
pub enum Kind {
    Struct,
    Newtype,
    UnitEnum,
    AlgEnum,
    Alias,
    Const,
}

#[derive(Clone, Debug, PartialEq)]
pub struct GItem {
    pub name: String,
    pub kind: Kind,
    pub crate_ix: usize,
    pub file_ix: usize,
    /// struct fields / anonymous-struct variant fields / the single type of newtype & alias
    pub fields: Vec<(String, Ty)>,
    /// enum variants: (name, 0 = unit, 1 = tuple(fields[i]), 2 = anonymous struct using all fields)
    pub variants: Vec<(String, u8)>,
    pub serde_rename: Option<String>,
    pub rename_all: Option<&'static str>,
    pub in_mod: Option<String>,
    pub annotated: bool,
    pub const_val: u32,
    pub doc: bool,
    /// generic parameters of a struct (`Page<T>`); fields may use them as `Ty::Prim`
    pub generics: Vec<&'static str>,
    /// extra attribute lines on the item (`#[typeshare(swift = "...")]`, ...)
    pub item_attrs: Vec<String>,
    /// extra attribute text per field (parallel to `fields`)
    pub field_attrs: Vec<String>,
}

#[derive(Clone, Debug, PartialEq)]
pub struct GCrate {
    pub dir: String,
    pub files: Vec<String>,
}

#[derive(Clone, Debug, PartialEq)]
pub struct World {
    pub crates: Vec<GCrate>,
    pub items: Vec<GItem>,
    pub noise: bool,
    /// per-world constant that decides `use` styles, so that rendering is a pure function
    pub style: u64,
    /// allow the glob + named import of one crate in one file (P5 family)
    pub allow_glob_named: bool,
    /// allow imports through a crate that merely re-exports the type (`use facade::Name;`)
    pub allow_reexport: bool,
    /// one source file is also reachable through a relative symlink in another crate
    pub symlinks: bool,
    /// annotated files outside any `src` directory
    pub outside_src: bool,
    /// CRLF line endings in every source file
    pub crlf: bool,
}

const PRIMS: [&str; 9] = ["String", "u32", "i32", "bool", "f64", "u8", "i16", "u16", "f32"];
const NAMES: [&str; 24] = [
    "Account", "Bucket", "Cursor", "Device", "Entry", "Folder", "Grant", "Header", "Invite", "Journal", "Key",
    "Ledger", "Member", "Note", "Order", "Policy", "Quota", "Record", "Session", "Token", "Unit", "Vault", "Widget",
    "Zone",
];
const CRATES: [&str; 10] = ["alpha", "beta-core", "gamma", "delta_x", "eps-i-lon", "codable", "alpha-ext", "alpha/src/vendor/wire", "gamma/src/third_party/inner-kit", "delta.x"];
const FILES: [&str; 9] = [
    "src/lib.rs",
    "src/model.rs",
    "src/api/mod.rs",
    "src/api/types.rs",
    "src/api/v2/wire.rs",
    "src/util.rs",
    "src/z.rs",
    "src/my module.rs",
    "src/\u{fc}n\u{ef}/wire types.rs",
];
const FIELD_NAMES: [&str; 10] =
    ["id", "name", "created_at", "items", "owner_ref", "flags", "meta_data", "count", "value", "child"];

#[derive(Clone, Debug)]
pub struct GenOpts {
    pub max_crates: usize,
    pub max_files: usize,
    pub max_items: usize,
    pub consts: bool,
    pub same_names: bool,
    /// reuse a type name only in a crate other than the one(s) defining it (legitimate in
    /// multi-file mode, where every crate has its own output file)
    pub same_names_other_crate: bool,
    pub unit_fields: bool,
    pub renames: bool,
    pub glob_named: bool,
    pub generics: bool,
    pub decorators: bool,
    pub specials: bool,
    pub reexports: bool,
    pub symlinks: bool,
    pub case_variants: bool,
    pub cfg_twins: bool,
}

impl Default for GenOpts {
    fn default() -> Self {
        GenOpts {
            max_crates: 4,
            max_files: 10,
            max_items: 14,
            consts: true,
            same_names: false,
            same_names_other_crate: false,
            unit_fields: true,
            renames: true,
            glob_named: true,
            generics: true,
            decorators: true,
            specials: true,
            reexports: false,
            symlinks: false,
            case_variants: true,
            cfg_twins: true,
        }
    }
}

pub fn crate_name_of(dir: &str) -> String {
    // the crate is named after the directory above `src` (a crate may be vendored below another
    // crate's `src` tree)
    dir.rsplit('/').next().unwrap_or(dir).replace('-', "_")
}

thread_local! {
    /// generic items available to the type generator: (name, number of parameters)
    static GENERIC_ITEMS: std::cell::RefCell<Vec<(String, usize)>> = const { std::cell::RefCell::new(Vec::new()) };
    static SPECIAL_PRIMS: std::cell::Cell<bool> = const { std::cell::Cell::new(false) };
}

const SPECIALS: [&str; 2] = ["Url", "Uuid"];

fn gen_ty(r: &mut Rng, names: &[String], depth: u32, unit_ok: bool) -> Ty {
    let roll = r.below(100);
    let generics: Vec<(String, usize)> = GENERIC_ITEMS.with(|g| g.borrow().clone());
    if depth < 2 && !generics.is_empty() && r.chance(1, 6) {
        let (n, k) = r.pick(&generics).clone();
        let args = (0..k).map(|_| gen_ty(r, names, depth + 1, false)).collect();
        return Ty::Generic(n, args);
    }
    if SPECIAL_PRIMS.with(|s| s.get()) && r.chance(1, 14) {
        return Ty::Prim(*r.pick(&SPECIALS[..]));
    }
    if depth < 2 && roll < 12 {
        return Ty::Opt(Box::new(gen_ty(r, names, depth + 1, false)));
    }
    if depth < 2 && roll < 24 {
        return Ty::Vec(Box::new(gen_ty(r, names, depth + 1, false)));
    }
    if depth < 2 && roll < 30 {
        return Ty::Map(Box::new(gen_ty(r, names, depth + 1, false)));
    }
    if !names.is_empty() && roll < 62 {
        return Ty::Ref(r.pick(names).clone());
    }
    if unit_ok && roll < 66 {
        return Ty::Unit;
    }
    Ty::Prim(*r.pick(&PRIMS[..]))
}

pub fn gen_world(r: &mut Rng, o: &GenOpts) -> World {
    let ncr = r.range(1, o.max_crates as u64) as usize;
    let mut cr_names: Vec<&str> = CRATES.to_vec();
    r.shuffle(&mut cr_names);
    let mut crates = vec![];
    let mut files_left = o.max_files.max(ncr);
    for (i, name) in cr_names.iter().take(ncr).enumerate() {
        let remaining_crates = ncr - i - 1;
        let wide = o.max_files > 40;
        let maxf = (files_left - remaining_crates).min(if wide { o.max_files / 2 } else { 5 }).max(1);
        let nf = if wide { maxf } else { r.range(1, maxf as u64) as usize };
        files_left -= nf;
        let mut fs: Vec<String> = FILES.iter().map(|s| s.to_string()).collect();
        if wide {
            // many small modules, a few levels deep
            for k in 0..nf {
                fs.push(format!("src/gen/m{}/part_{k}.rs", k % 7));
            }
        }
        r.shuffle(&mut fs);
        let mut files: Vec<String> = fs.iter().take(nf).map(|s| s.to_string()).collect();
        files.sort();
        crates.push(GCrate { dir: name.to_string(), files });
    }
    let nitems = if o.max_files > 40 { o.max_items } else { r.range(2, o.max_items as u64) as usize };
    let mut pool: Vec<&str> = NAMES.to_vec();
    r.shuffle(&mut pool);
    let mut items: Vec<GItem> = vec![];
    let mut names: Vec<String> = vec![];
    GENERIC_ITEMS.with(|g| g.borrow_mut().clear());
    SPECIAL_PRIMS.with(|s| s.set(o.specials && r.chance(1, 3)));
    const GPARAMS: [&str; 6] = ["T", "U", "A", "B", "K", "V"];
    for i in 0..nitems {
        let crate_ix = r.below(crates.len() as u64) as usize;
        let file_ix = r.below(crates[crate_ix].files.len() as u64) as usize;
        let kroll = r.below(100);
        let kind = if kroll < 40 {
            Kind::Struct
        } else if kroll < 52 {
            Kind::UnitEnum
        } else if kroll < 68 {
            Kind::AlgEnum
        } else if kroll < 78 {
            Kind::Alias
        } else if kroll < 86 {
            Kind::Newtype
        } else if o.consts {
            Kind::Const
        } else {
            Kind::Struct
        };
        let mut name = pool[i % pool.len()].to_string();
        if i >= pool.len() {
            name.push_str(&format!("{i}"));
        }
        // occasionally names that differ only in leading zeros of a number (`Grant1`, `Grant01`)
        if o.case_variants && kind != Kind::Const && r.chance(1, 12) {
            let base: String = pool[(i + 7) % pool.len()].to_string();
            for suffix in ["1", "01", "001", "7", "07"] {
                let cand = format!("{base}{suffix}");
                if !names.contains(&cand) && !items.iter().any(|it: &GItem| it.name == cand) {
                    name = cand;
                    break;
                }
            }
        }
        // occasionally a name that differs from an earlier one only by case
        if o.case_variants && !names.is_empty() && kind != Kind::Const && r.chance(1, 10) {
            let cand = r.pick(&names).to_uppercase();
            if !names.contains(&cand) && !items.iter().any(|it: &GItem| it.name == cand) {
                name = cand;
            }
        }
        if o.same_names && !names.is_empty() && r.chance(1, 8) && kind != Kind::Const {
            name = r.pick(&names).clone();
        } else if o.same_names_other_crate && !names.is_empty() && r.chance(1, 6) && kind != Kind::Const {
            let cand = r.pick(&names).clone();
            let clash = items.iter().any(|it: &GItem| it.name == cand && it.crate_ix == crate_ix);
            if !clash {
                name = cand;
            }
        }
        let nf = match kind {
            Kind::Struct => r.range(0, 4) as usize,
            Kind::AlgEnum => r.range(1, 3) as usize,
            Kind::Alias | Kind::Newtype => 1,
            _ => 0,
        };
        let mut fields = vec![];
        let mut field_attrs = vec![];
        let mut fnames: Vec<&str> = FIELD_NAMES.to_vec();
        r.shuffle(&mut fnames);
        // generic struct: 1-2 parameters, used by its fields
        let mut generics: Vec<&'static str> = vec![];
        if o.generics && (kind == Kind::Struct || kind == Kind::AlgEnum) && r.chance(1, 7) {
            let k = r.range(1, 2) as usize;
            let start = r.below(GPARAMS.len() as u64) as usize;
            for j in 0..k {
                generics.push(GPARAMS[(start + j) % GPARAMS.len()]);
            }
        }
        for fi in 0..nf {
            let unit_ok = o.unit_fields && kind == Kind::Struct;
            fields.push((fnames[fi].to_string(), gen_ty(r, &names, 0, unit_ok)));
            let mut fa = String::new();
            if o.decorators && matches!(kind, Kind::Struct) {
                match r.below(24) {
                    0 => fa.push_str("#[serde(default)] "),
                    1 => fa.push_str(&format!("#[serde(rename = \"{}Renamed\")] ", fnames[fi])),
                    2 => fa.push_str("#[typeshare(typescript(readonly))] "),
                    3 => fa.push_str("#[typeshare(serialized_as = \"String\")] "),
                    4 => fa.push_str("#[serde(skip)] "),
                    5 => fa.push_str("#[typeshare(skip)] "),
                    6 => fa.push_str("#[typeshare(typescript(type = \"unknown\"))] "),
                    _ => {}
                }
            }
            field_attrs.push(fa);
        }
        for (gi, g) in generics.iter().enumerate() {
            let t = if gi % 2 == 0 { Ty::Vec(Box::new(Ty::Prim(g))) } else { Ty::Opt(Box::new(Ty::Prim(g))) };
            fields.push((format!("g_{}", g.to_lowercase()), t));
            field_attrs.push(String::new());
        }
        let mut item_attrs = vec![];
        if o.decorators && matches!(kind, Kind::Struct | Kind::UnitEnum | Kind::AlgEnum) {
            match r.below(16) {
                0 => item_attrs.push("#[typeshare(swift = \"Equatable, Hashable\")]".to_string()),
                1 => item_attrs.push("#[typeshare(kotlin = \"JvmInline\", swift = \"Sendable\")]".to_string()),
                2 => item_attrs.push("#[typeshare(redacted)]".to_string()),
                3 if !generics.is_empty() => {
                    item_attrs.push(format!("#[typeshare(swiftGenericConstraints = \"{}: Equatable & Hashable\")]", generics[0]))
                }
                _ => {}
            }
        }
        let mut variants = vec![];
        match kind {
            Kind::UnitEnum => {
                for v in 0..r.range(1, 4) {
                    variants.push((format!("Var{}", (b'A' + v as u8) as char), 0));
                }
            }
            Kind::AlgEnum => {
                variants.push(("Plain".to_string(), 0));
                for (fi, _) in fields.iter().enumerate() {
                    variants.push((format!("Wrap{fi}"), 1));
                }
                // a generic enum always gets the struct variant, so that several type
                // parameters meet in one generated helper type
                if r.chance(1, 2) || !generics.is_empty() {
                    variants.push(("Shape".to_string(), 2));
                }
            }
            _ => {}
        }
        // wire names are per crate (two crates may both define `Config` and rename it differently)
        let reused_name = names.contains(&name);
        let serde_rename = if o.renames && kind != Kind::Const && (r.chance(1, 7) || (reused_name && r.chance(1, 2))) {
            Some(format!("{name}Wire{}", if reused_name { format!("{crate_ix}") } else { String::new() }))
        } else {
            None
        };
        let rename_all = if matches!(kind, Kind::Struct | Kind::UnitEnum) && r.chance(1, 4) {
            Some(*r.pick(&["camelCase", "snake_case", "SCREAMING_SNAKE_CASE", "kebab-case", "PascalCase"]))
        } else {
            None
        };
        let in_mod = if r.chance(1, 8) { Some(format!("inner{}", r.below(2))) } else { None };
        let it = GItem {
            name: if kind == Kind::Const { format!("{}_LIMIT", name.to_uppercase()) } else { name.clone() },
            kind: kind.clone(),
            crate_ix,
            file_ix,
            fields,
            variants,
            serde_rename,
            rename_all,
            in_mod,
            annotated: !r.chance(1, 12),
            const_val: r.below(1000) as u32,
            doc: r.chance(1, 3),
            generics: generics.clone(),
            item_attrs,
            field_attrs,
        };
        if it.annotated && kind != Kind::Const {
            if generics.is_empty() {
                names.push(name);
            } else {
                GENERIC_ITEMS.with(|g| g.borrow_mut().push((name, generics.len())));
            }
        }
        items.push(it);
    }
    // a chain of wire names: A is renamed to B's Rust name while B itself gets a new wire name
    if o.renames && r.chance(1, 10) {
        let idx: Vec<usize> = items.iter().enumerate().filter(|(_, it)| it.annotated && matches!(it.kind, Kind::Struct | Kind::UnitEnum) && it.generics.is_empty()).map(|(i, _)| i).collect();
        if idx.len() >= 2 {
            let a = idx[r.below(idx.len() as u64) as usize];
            let b = idx[r.below(idx.len() as u64) as usize];
            if a != b && items[a].crate_ix == items[b].crate_ix && items[a].name != items[b].name {
                let bname = items[b].name.clone();
                items[b].serde_rename = Some(format!("{bname}Legacy"));
                items[a].serde_rename = Some(bname);
            }
        }
    }
    // one type per platform: the same item twice, identical but for the cfg attribute
    if o.cfg_twins && r.chance(1, 8) {
        let idx: Vec<usize> = items.iter().enumerate().filter(|(_, it)| it.annotated && it.kind == Kind::Struct && it.generics.is_empty() && it.in_mod.is_none()).map(|(i, _)| i).collect();
        if !idx.is_empty() {
            let a = idx[r.below(idx.len() as u64) as usize];
            let mut twin = items[a].clone();
            items[a].item_attrs.push("#[cfg(target_os = \"android\")]".to_string());
            twin.item_attrs.push("#[cfg(target_os = \"ios\")]".to_string());
            // same crate (one output namespace in both modes), same or another file
            twin.file_ix = r.below(crates[twin.crate_ix].files.len() as u64) as usize;
            items.push(twin);
        }
    }
    World { crates, items, noise: r.chance(1, 2), style: r.next(), allow_glob_named: o.glob_named, allow_reexport: o.reexports, symlinks: o.symlinks, outside_src: r.chance(1, 8), crlf: r.chance(1, 14) }
}

pub fn render_item(it: &GItem) -> String {
    let mut s = String::new();
    if it.doc {
        if it.const_val % 3 == 0 {
            // a block comment spanning lines
            s.push_str(&format!("/**\n * The {} type.\n *\n * Second paragraph, with a caf\u{e9} and a \u{20ac} sign.\n */\n", it.name));
        } else {
            s.push_str(&format!("/// The {} type.\n", it.name));
        }
    }
    if !it.annotated && it.const_val % 3 == 1 {
        // not an annotation for the tool (the attribute is only there when a feature is on); such
        // items are not part of the output wherever they live
        s.push_str("#[cfg_attr(feature = \"bindings\", typeshare)]\n");
    }
    if it.annotated {
        s.push_str("#[typeshare]\n");
        for a in &it.item_attrs {
            s.push_str(a);
            s.push('\n');
        }
    }
    let gen = if it.generics.is_empty() { String::new() } else { format!("<{}>", it.generics.join(", ")) };
    match it.kind {
        Kind::Const => {
            // integer types of several widths (back ends may group or format constants by type)
            let ty = ["u32", "i32", "u8", "u16", "i16", "i8", "U53", "I54"][(it.const_val % 8) as usize];
            s.push_str(&format!("pub const {}: {ty} = {};\n", it.name, it.const_val % 100));
        }
        Kind::Alias => {
            if let Some(rn) = &it.serde_rename {
                s.push_str(&format!("#[serde(rename = \"{rn}\")]\n"));
            }
            s.push_str(&format!("pub type {} = {};\n", it.name, it.fields[0].1.render()));
        }
        Kind::Newtype => {
            if let Some(rn) = &it.serde_rename {
                s.push_str(&format!("#[serde(rename = \"{rn}\")]\n"));
            }
            s.push_str(&format!("pub struct {}({});\n", it.name, it.fields[0].1.render()));
        }
        Kind::Struct => {
            s.push_str("#[derive(Serialize, Deserialize)]\n");
            let mut sa = vec![];
            if let Some(rn) = &it.serde_rename {
                sa.push(format!("rename = \"{rn}\""));
            }
            if let Some(ra) = it.rename_all {
                sa.push(format!("rename_all = \"{ra}\""));
            }
            if !sa.is_empty() {
                s.push_str(&format!("#[serde({})]\n", sa.join(", ")));
            }
            if it.fields.is_empty() {
                s.push_str(&format!("pub struct {}{gen} {{}}\n", it.name));
            } else {
                s.push_str(&format!("pub struct {}{gen} {{\n", it.name));
                for (i, (n, t)) in it.fields.iter().enumerate() {
                    let fa = it.field_attrs.get(i).map(|s| s.as_str()).unwrap_or("");
                    s.push_str(&format!("    {fa}pub {n}: {},\n", t.render()));
                }
                s.push_str("}\n");
            }
        }
        Kind::UnitEnum => {
            let mut sa = vec![];
            if let Some(rn) = &it.serde_rename {
                sa.push(format!("rename = \"{rn}\""));
            }
            if let Some(ra) = it.rename_all {
                sa.push(format!("rename_all = \"{ra}\""));
            }
            if !sa.is_empty() {
                s.push_str(&format!("#[serde({})]\n", sa.join(", ")));
            }
            s.push_str(&format!("pub enum {} {{\n", it.name));
            for (v, _) in &it.variants {
                s.push_str(&format!("    {v},\n"));
            }
            s.push_str("}\n");
        }
        Kind::AlgEnum => {
            let mut sa = vec!["tag = \"type\"".to_string(), "content = \"content\"".to_string()];
            if let Some(rn) = &it.serde_rename {
                sa.push(format!("rename = \"{rn}\""));
            }
            s.push_str(&format!("#[serde({})]\n", sa.join(", ")));
            s.push_str(&format!("pub enum {}{gen} {{\n", it.name));
            let mut fi = 0;
            for (v, k) in &it.variants {
                match k {
                    0 => s.push_str(&format!("    {v},\n")),
                    1 => {
                        s.push_str(&format!("    {v}({}),\n", it.fields[fi].1.render()));
                        fi += 1;
                    }
                    _ => {
                        s.push_str(&format!("    {v} {{\n"));
                        for (n, t) in &it.fields {
                            s.push_str(&format!("        {n}: {},\n", t.render()));
                        }
                        s.push_str("    },\n");
                    }
                }
            }
            s.push_str("}\n");
        }
    }
    if let Some(m) = &it.in_mod {
        // (not indented: the interior whitespace of a block doc comment is part of the doc text)
        s = format!("pub mod {m} {{\nuse super::*;\n{s}}}\n");
    }
    s.push('\n');
    s
}

impl World {
    pub fn defined_in(&self, name: &str) -> Vec<usize> {
        self.items.iter().filter(|i| i.annotated && i.name == name && i.kind != Kind::Const).map(|i| i.crate_ix).collect()
    }

    /// Render the world to a source tree. `multi` selects the layout used for folder mode
    /// (`use` lines matter there); the same tree is valid input for single-file mode too.
    pub fn render(&self) -> Tree {
        let mut tree: Tree = vec![];
        for (ci, c) in self.crates.iter().enumerate() {
            for (fi, f) in c.files.iter().enumerate() {
                let items: Vec<&GItem> = self.items.iter().filter(|i| i.crate_ix == ci && i.file_ix == fi).collect();
                let mut chunks = vec!["use serde::{Deserialize, Serialize};\nuse std::collections::HashMap;\nuse typeshare::typeshare;\n".to_string()];
                // cross-crate references -> use lines
                let mut by_crate: std::collections::BTreeMap<usize, std::collections::BTreeSet<String>> = Default::default();
                for it in &items {
                    let mut refs = vec![];
                    for (_, t) in &it.fields {
                        t.refs(&mut refs);
                    }
                    for rname in refs {
                        let defs = self.defined_in(&rname);
                        if defs.contains(&ci) || defs.is_empty() {
                            continue;
                        }
                        // a directory such as `delta.x` cannot be named in a `use` path
                        let defs: Vec<usize> = defs.into_iter().filter(|d| !self.crates[*d].dir.rsplit('/').next().unwrap_or("").contains('.')).collect();
                        if defs.is_empty() {
                            continue;
                        }
                        // with the name defined in several other crates, files of one crate may
                        // import it from different ones
                        by_crate.entry(defs[fi % defs.len()]).or_default().insert(rname);
                    }
                }
                let mut fr = Rng::new(self.style ^ ((ci as u64) << 8 | fi as u64));
                for (oc, names) in &by_crate {
                    let cn = crate_name_of(&self.crates[*oc].dir);
                    let names: Vec<&String> = names.iter().collect();
                    let mut style = fr.below(if self.allow_glob_named { 5 } else { 4 });
                    if self.allow_reexport && self.crates.len() > 2 && fr.chance(1, 3) {
                        style = 9;
                    }
                    let line = match style {
                        0 => names.iter().map(|n| format!("use {cn}::{n};\n")).collect::<String>(),
                        1 => format!("use {cn}::{{{}}};\n", names.iter().map(|s| s.as_str()).collect::<Vec<_>>().join(", ")),
                        2 => format!("use {cn}::*;\n"),
                        3 => names.iter().map(|n| format!("use {cn}::model::{n};\n")).collect::<String>(),
                        9 => {
                            // import through a third crate that only re-exports the type
                            let facade = (0..self.crates.len()).find(|x| x != oc && *x != ci).unwrap_or(*oc);
                            let fcn = crate_name_of(&self.crates[facade].dir);
                            names.iter().map(|n| format!("use {fcn}::{n};\n")).collect::<String>()
                        }
                        _ => format!("use {cn}::*;\nuse {cn}::{};\n", names[0]),
                    };
                    chunks.push(line);
                }
                // imports that no typeshared type of this file refers to (real files have plenty)
                if self.crates.len() > 1 && fr.chance(1, 6) && !self.crates.iter().any(|c| c.dir.contains('.')) {
                    let oc = (ci + 1 + fr.below(self.crates.len() as u64 - 1) as usize) % self.crates.len();
                    let cn = crate_name_of(&self.crates[oc].dir);
                    chunks.push(if fr.chance(1, 2) { format!("use {cn}::*;\n") } else { format!("use {cn}::{{Unrelated, helper_fn}};\n") });
                }
                for it in items {
                    chunks.push(render_item(it));
                }
                tree.push(SrcFile::text(&format!("{}/{}", c.dir, f), chunks));
            }
        }
        if self.noise {
            tree.push(SrcFile::text(".ignore", vec!["ignored_dir/\n".into()]));
            tree.push(SrcFile::text(
                &format!("{}/src/ignored_dir/hidden.rs", self.crates[0].dir),
                vec!["#[typeshare]\npub struct MustNotAppearIgnored { pub x: u32 }\n".into()],
            ));
            tree.push(SrcFile::text(
                &format!("{}/src/.hidden.rs", self.crates[0].dir),
                vec!["#[typeshare]\npub struct MustNotAppearHidden { pub x: u32 }\n".into()],
            ));
            tree.push(SrcFile::text(
                &format!("{}/src/tools/typeshare/gen.rs", self.crates[0].dir),
                vec!["#[typeshare]\npub struct MustNotAppearTools { pub x: u32 }\n".into()],
            ));
            tree.push(SrcFile::text(&format!("{}/src/notes.txt", self.crates[0].dir), vec!["#[typeshare] not rust\n".into()]));
            tree.push(SrcFile::text(&format!("{}/src/plain.rs", self.crates[0].dir), vec!["pub fn nothing_shared() {}\n".into()]));
            tree.push(SrcFile::text(&format!("{}/src/empty.rs", self.crates[0].dir), vec![]));
            tree.push(SrcFile::text(&format!("{}/src/tiny.rs", self.crates[0].dir), vec!["// x\n".into()]));
        }
        // annotated files that are not below a `src` directory (tests, examples, build scripts)
        if self.outside_src {
            let c = &self.crates[(self.style % self.crates.len() as u64) as usize];
            tree.push(SrcFile::text(
                &format!("{}/tests/fixtures.rs", c.dir),
                vec!["use typeshare::typeshare;\n".into(), "#[typeshare]\npub struct FixtureOnly { pub seen_by_single_file_mode: bool }\n".into()],
            ));
            tree.push(SrcFile::text(&format!("{}/examples/demo.rs", c.dir), vec!["#[typeshare]\npub type ExampleOnly = Vec<String>;\n".into()]));
        }
        // a source file shared between two crates through a relative symlink
        if self.symlinks && self.crates.len() > 1 {
            let mut lr = Rng::new(self.style ^ 0x51AB);
            let from = lr.below(self.crates.len() as u64) as usize;
            let to = (from + 1 + lr.below(self.crates.len() as u64 - 1) as usize) % self.crates.len();
            // any file may be the target: a module with items, or a tiny / empty one
            let texts: Vec<&SrcFile> = tree.iter().filter(|f| f.kind == FileKind::Text && f.path.ends_with(".rs") && f.path.starts_with(&format!("{}/", self.crates[from].dir))).collect();
            let target = if texts.is_empty() { format!("{}/{}", self.crates[from].dir, self.crates[from].files[0]) } else { lr.pick(&texts).path.clone() };
            let link = format!("{}/src/shared_link.rs", self.crates[to].dir);
            if !tree.iter().any(|f| f.path == link) {
                tree.push(SrcFile { path: link, kind: FileKind::SymlinkToFile, chunks: vec![target], raw_hex: String::new() });
            }
        }
        // Windows line endings throughout
        if self.crlf {
            for f in tree.iter_mut().filter(|f| f.kind == FileKind::Text && f.path.ends_with(".rs")) {
                for c in f.chunks.iter_mut() {
                    *c = c.replace('\n', "\r\n");
                }
            }
        }
        tree.sort_by(|a, b| a.path.cmp(&b.path));
        tree
    }

    pub fn has_consts(&self) -> bool {
        self.items.iter().any(|i| i.annotated && i.kind == Kind::Const)
    }
    pub fn has_unit_field(&self) -> bool {
        self.items.iter().any(|i| i.annotated && i.fields.iter().any(|f| f.1.has_unit()))
    }

    // ---- edit operations (versions of a tree for histories) ------------------------------------

    pub fn edit(&self, r: &mut Rng) -> (World, String) {
        let mut w = self.clone();
        let n = w.items.len();
        for _ in 0..8 {
            match r.below(9) {
                8 if w.crates.len() > 1 => {
                    // a whole crate disappears
                    let c = r.below(w.crates.len() as u64) as usize;
                    if !w.items.iter().any(|it| it.crate_ix != c) {
                        continue;
                    }
                    let dir = w.crates[c].dir.clone();
                    w.items.retain(|it| it.crate_ix != c);
                    for it in w.items.iter_mut() {
                        if it.crate_ix > c {
                            it.crate_ix -= 1;
                        }
                    }
                    w.crates.remove(c);
                    return (w, format!("remove crate {dir}"));
                }
                7 if n > 0 => {
                    // rename to a name of the same length (the output keeps its size)
                    let i = r.below(n as u64) as usize;
                    if w.items[i].kind == Kind::Const || w.items[i].name.len() < 3 {
                        continue;
                    }
                    let old = w.items[i].name.clone();
                    let mut chars: Vec<char> = old.chars().collect();
                    let last = chars.len() - 1;
                    chars[last] = if chars[last] == 'x' { 'y' } else { 'x' };
                    let new: String = chars.into_iter().collect();
                    if w.items.iter().any(|it| it.name == new) {
                        continue;
                    }
                    for it in w.items.iter_mut() {
                        if it.name == old {
                            it.name = new.clone();
                        }
                        for f in it.fields.iter_mut() {
                            f.1.rename_ref(&old, &new);
                        }
                    }
                    return (w, format!("same-length rename {old} -> {new}"));
                }
                0 => {
                    // add a struct referencing existing items
                    let names: Vec<String> =
                        w.items.iter().filter(|i| i.annotated && i.kind != Kind::Const).map(|i| i.name.clone()).collect();
                    let crate_ix = r.below(w.crates.len() as u64) as usize;
                    let file_ix = r.below(w.crates[crate_ix].files.len() as u64) as usize;
                    let name = format!("Added{}", r.below(1000));
                    let f = vec![
                        ("first".to_string(), gen_ty(r, &names, 0, false)),
                        ("second".to_string(), gen_ty(r, &names, 0, false)),
                    ];
                    w.items.push(GItem {
                        name: name.clone(),
                        kind: Kind::Struct,
                        crate_ix,
                        file_ix,
                        fields: f,
                        variants: vec![],
                        serde_rename: None,
                        rename_all: None,
                        in_mod: None,
                        annotated: true,
                        const_val: 0,
                        doc: false,
                        generics: vec![],
                        item_attrs: vec![],
                        field_attrs: vec![String::new(), String::new()],
                    });
                    return (w, format!("add {name}"));
                }
                1 if n > 2 => {
                    let i = r.below(n as u64) as usize;
                    let it = w.items.remove(i);
                    return (w, format!("remove {}", it.name));
                }
                2 if n > 0 => {
                    let i = r.below(n as u64) as usize;
                    if w.items[i].kind == Kind::Const {
                        continue;
                    }
                    let old = w.items[i].name.clone();
                    let new = format!("{old}Renamed");
                    for it in w.items.iter_mut() {
                        if it.name == old {
                            it.name = new.clone();
                        }
                        for f in it.fields.iter_mut() {
                            f.1.rename_ref(&old, &new);
                        }
                    }
                    return (w, format!("rename {old} -> {new}"));
                }
                3 if n > 0 => {
                    // move to another file / crate
                    let i = r.below(n as u64) as usize;
                    let crate_ix = r.below(w.crates.len() as u64) as usize;
                    let file_ix = r.below(w.crates[crate_ix].files.len() as u64) as usize;
                    if (crate_ix, file_ix) == (w.items[i].crate_ix, w.items[i].file_ix) {
                        continue;
                    }
                    w.items[i].crate_ix = crate_ix;
                    w.items[i].file_ix = file_ix;
                    { let msg = format!("move {} to {}/{}", w.items[i].name, w.crates[crate_ix].dir, w.crates[crate_ix].files[file_ix]); return (w, msg); }
                }
                4 if n > 0 => {
                    // change a field type
                    let i = r.below(n as u64) as usize;
                    if w.items[i].kind != Kind::Struct || w.items[i].fields.is_empty() {
                        continue;
                    }
                    let k = r.below(w.items[i].fields.len() as u64) as usize;
                    w.items[i].fields[k].1 = Ty::Vec(Box::new(Ty::Prim(*r.pick(&PRIMS[..]))));
                    { let msg = format!("retype {}.{}", w.items[i].name, w.items[i].fields[k].0); return (w, msg); }
                }
                5 if n > 0 => {
                    // toggle a `()` field (Swift: Codable.swift appears / stops being needed)
                    let i = r.below(n as u64) as usize;
                    if w.items[i].kind != Kind::Struct {
                        continue;
                    }
                    if let Some(p) = w.items[i].fields.iter().position(|f| f.1 == Ty::Unit) {
                        w.items[i].fields.remove(p);
                        if p < w.items[i].field_attrs.len() {
                            w.items[i].field_attrs.remove(p);
                        }
                        { let msg = format!("drop unit field of {}", w.items[i].name); return (w, msg); }
                    } else {
                        w.items[i].fields.push(("nothing".to_string(), Ty::Unit));
                        w.items[i].field_attrs.push(String::new());
                        { let msg = format!("add unit field to {}", w.items[i].name); return (w, msg); }
                    }
                }
                6 if n > 0 => {
                    let i = r.below(n as u64) as usize;
                    w.items[i].annotated = !w.items[i].annotated;
                    { let msg = format!("toggle annotation of {}", w.items[i].name); return (w, msg); }
                }
                _ => {}
            }
        }
        (w, "no-op".to_string())
    }

    /// Re-partition the same items over other files and directories (C06: single-file mode must not
    /// depend on how the items are split).
    pub fn resplit(&self, r: &mut Rng) -> World {
        let mut w = self.clone();
        match r.below(3) {
            0 => {
                // everything into one file
                for it in w.items.iter_mut() {
                    it.crate_ix = 0;
                    it.file_ix = 0;
                }
            }
            1 => {
                // reshuffle items over the existing files
                for it in w.items.iter_mut() {
                    it.crate_ix = r.below(w.crates.len() as u64) as usize;
                    it.file_ix = r.below(w.crates[it.crate_ix].files.len() as u64) as usize;
                }
            }
            _ => {
                // add a deeper directory and move some items there
                w.crates[0].files.push("src/deep/er/split.rs".to_string());
                let fi = w.crates[0].files.len() - 1;
                for it in w.items.iter_mut() {
                    if r.chance(1, 2) {
                        it.crate_ix = 0;
                        it.file_ix = fi;
                    }
                }
            }
        }
        // module nesting is part of the split, too
        for it in w.items.iter_mut() {
            if r.chance(1, 6) {
                it.in_mod = if it.in_mod.is_some() { None } else { Some("moved".to_string()) };
            }
        }
        w
    }
}

pub fn default_config(r: &mut Rng, lang: &str, omit_package: bool) -> String {
    default_config_with(r, lang, omit_package, &[])
}

/// `mapped_names`: names of typeshared items that the configuration may also map (a type mapping
/// overrides a typeshared type of the same name)
pub fn default_config_with(r: &mut Rng, lang: &str, omit_package: bool, mapped_names: &[String]) -> String {
    let mut s = String::new();
    let maps = r.chance(1, 2);
    let mapping = |r: &mut Rng, target: &[&str]| -> String {
        let mut m = String::new();
        let mut keys: Vec<&str> = vec!["Url", "Uuid", "Instant"];
        for n in mapped_names.iter().take(2) {
            keys.push(n.as_str());
        }
        r.shuffle(&mut keys);
        for k in keys.iter().take(r.range(1, 3) as usize) {
            m.push_str(&format!("\"{k}\" = \"{}\"\n", r.pick(target)));
            // the same name once more, path-qualified, mapped to something else
            if r.chance(1, 4) {
                m.push_str(&format!("\"vendor::{k}\" = \"{}\"\n", target[0]));
                m.push_str(&format!("\"other::vendor::{k}\" = \"{}\"\n", target[target.len() - 1]));
            }
        }
        m
    };
    s.push_str("[go]\n");
    if !omit_package {
        s.push_str("package = \"proto\"\n");
    }
    if r.chance(1, 3) {
        s.push_str("uppercase_acronyms = [\"id\", \"url\"]\n");
    }
    if maps {
        s.push_str(&format!("[go.type_mappings]\n{}", mapping(r, &["string", "time.Time"])));
    }
    s.push_str("\n[scala]\n");
    if !omit_package {
        s.push_str("package = \"com.example.types\"\nmodule_name = \"types\"\n");
    }
    if maps {
        s.push_str(&format!("[scala.type_mappings]\n{}", mapping(r, &["String", "java.time.Instant"])));
    }
    s.push_str("\n[kotlin]\n");
    if !omit_package {
        s.push_str("package = \"com.example.types\"\nmodule_name = \"types\"\n");
    }
    if maps {
        s.push_str(&format!("[kotlin.type_mappings]\n{}", mapping(r, &["String", "java.time.Instant"])));
    }
    s.push_str("\n[swift]\n");
    if lang == "swift" && r.chance(1, 3) {
        s.push_str("prefix = \"TS\"\n");
    }
    if r.chance(1, 4) {
        s.push_str("default_decorators = [\"Sendable\", \"Identifiable\"]\n");
    }
    if r.chance(1, 4) {
        s.push_str("default_generic_constraints = [\"Sendable\", \"Equatable\"]\n");
    }
    if r.chance(1, 4) {
        s.push_str("codablevoid_constraints = [\"Equatable\", \"Hashable\"]\n");
    }
    if maps {
        s.push_str(&format!("[swift.type_mappings]\n{}", mapping(r, &["String", "Date"])));
    }
    s.push_str("\n[typescript]\n");
    if maps {
        s.push_str(&format!("[typescript.type_mappings]\n{}", mapping(r, &["string", "Date"])));
    }
    s.push_str("\n[python]\n");
    if maps {
        s.push_str(&format!("[python.type_mappings]\n{}", mapping(r, &["str", "datetime"])));
    }
    s
}

/// C07: unusual typeshare.toml contents (a correct tool accepts or rejects them, never panics)
pub const CONFIG_EDGES: &[(&str, &str)] = &[
    ("not_toml", "this is = = not toml [[\n"),
    ("wrong_types", "[go]\npackage = 5\n[kotlin]\npackage = [\"a\"]\n"),
    ("unknown_keys", "[go]\npackage = \"p\"\nnonsense = true\n[scala]\npackage = \"p\"\n[kotlin]\npackage = \"p\"\n[rust]\nx = 1\n"),
    ("empty_strings", "[go]\npackage = \"p\"\nuppercase_acronyms = [\"\", \"a\"]\n[scala]\npackage = \"p\"\nmodule_name = \"\"\n[kotlin]\npackage = \"p\"\nprefix = \"\"\nmodule_name = \"\"\n[swift]\nprefix = \"\"\ndefault_decorators = [\"\"]\ndefault_generic_constraints = [\"\"]\ncodablevoid_constraints = [\"\"]\n"),
    ("odd_mappings", "[go]\npackage = \"p\"\n[go.type_mappings]\n\"String\" = \"\"\n\"u32\" = \"weird type<>\"\n[scala]\npackage = \"p\"\n[kotlin]\npackage = \"p\"\n[kotlin.type_mappings]\n\"\" = \"X\"\n\"Vec\" = \"List\"\n[swift.type_mappings]\n\"()\" = \"Void\"\n\"Option\" = \"Maybe\"\n[typescript.type_mappings]\n\"HashMap\" = \"Record\"\n\"bool\" = \"\"\n[python.type_mappings]\n\"f64\" = \"Decimal\"\n\"String\" = \"\"\n"),
    ("dotted_package", "[go]\npackage = \"a.b-c d\"\n[scala]\npackage = \"...\"\nmodule_name = \".\"\n[kotlin]\npackage = \"com..example.\"\nmodule_name = \"1\"\n"),
    ("unicode_values", "[go]\npackage = \"p\u{e4}ckchen\"\nuppercase_acronyms = [\"\u{fc}rl\", \"\u{df}\"]\n[scala]\npackage = \"\u{e9}.\u{e8}\"\n[kotlin]\npackage = \"\u{e9}.\u{e8}\"\nprefix = \"\u{c4}\"\n[swift]\nprefix = \"\u{d6}\"\n"),
    ("empty_file", ""),
];

// ------------------------------------------------------------------------------------------------
// catalogues
// ------------------------------------------------------------------------------------------------

/// C07: named edge inputs. (id, chunk text or special, needs multi-file mode, languages it concerns or empty = all)
pub struct Edge {
    pub id: &'static str,
    pub chunk: &'static str,
    pub kind: FileKind,
    pub raw_hex: &'static str,
    /// whether a correct tool must reject this input (true) or may accept it (false = either is fine)
    pub must_fail: bool,
}

/// the fixed catalogue: `EDGES` plus `edges_extra::EXTRA`
pub fn all_edges() -> Vec<Edge> {
    let mut v: Vec<Edge> = EDGES.iter().map(|e| Edge { id: e.id, chunk: e.chunk, kind: e.kind.clone(), raw_hex: e.raw_hex, must_fail: e.must_fail }).collect();
    for (id, chunk) in super::edges_extra::EXTRA {
        v.push(Edge { id, chunk, kind: FileKind::Text, raw_hex: "", must_fail: false });
    }
    v
}

pub const EDGES: &[Edge] = &[
    Edge { id: "unparsable", chunk: "#[typeshare]\npub struct Broken { pub x: u32 \n", kind: FileKind::Text, raw_hex: "", must_fail: true },
    Edge { id: "non_utf8", chunk: "#[typeshare]\npub struct Latin { pub x: u32 }\n// ", kind: FileKind::Text, raw_hex: "fffe80", must_fail: true },
    Edge { id: "empty_tuple_struct", chunk: "#[typeshare]\npub struct EmptyTuple();\n", kind: FileKind::Text, raw_hex: "", must_fail: false },
    Edge { id: "empty_tuple_variant", chunk: "#[typeshare]\n#[serde(tag = \"type\", content = \"content\")]\npub enum HasEmptyTuple { A(), B(String) }\n", kind: FileKind::Text, raw_hex: "", must_fail: false },
    Edge { id: "vec_no_args", chunk: "#[typeshare]\npub struct BareVec { pub v: Vec }\n", kind: FileKind::Text, raw_hex: "", must_fail: false },
    Edge { id: "option_no_args", chunk: "#[typeshare]\npub struct BareOption { pub v: Option }\n", kind: FileKind::Text, raw_hex: "", must_fail: false },
    Edge { id: "hashmap_no_args", chunk: "#[typeshare]\npub struct BareMap { pub v: HashMap }\n", kind: FileKind::Text, raw_hex: "", must_fail: false },
    Edge { id: "hashmap_one_arg", chunk: "#[typeshare]\npub struct HalfMap { pub v: HashMap<String> }\n", kind: FileKind::Text, raw_hex: "", must_fail: false },
    Edge { id: "box_no_args", chunk: "#[typeshare]\npub struct BareBox { pub v: Box }\n", kind: FileKind::Text, raw_hex: "", must_fail: false },
    Edge { id: "unknown_nested_list", chunk: "#[typeshare]\npub struct Nested {\n    #[typeshare(foo(bar))]\n    pub v: u32,\n}\n", kind: FileKind::Text, raw_hex: "", must_fail: false },
    Edge { id: "unknown_nested_list_item", chunk: "#[typeshare(foo(bar))]\npub struct NestedItem { pub v: u32 }\n", kind: FileKind::Text, raw_hex: "", must_fail: false },
    Edge { id: "underscore_ident_camel", chunk: "#[typeshare]\n#[serde(rename_all = \"camelCase\")]\npub struct Under { pub __: u32, pub _x: u32 }\n", kind: FileKind::Text, raw_hex: "", must_fail: false },
    Edge { id: "underscore_ident_pascal", chunk: "#[typeshare]\n#[serde(rename_all = \"PascalCase\")]\npub struct UnderP { pub __: u32 }\n", kind: FileKind::Text, raw_hex: "", must_fail: false },
    Edge { id: "non_ascii_ident_camel", chunk: "#[typeshare]\n#[serde(rename_all = \"camelCase\")]\npub struct NonAscii { pub \u{e9}t\u{e9}_chaud: u32, pub \u{df}x: u32 }\n", kind: FileKind::Text, raw_hex: "", must_fail: false },
    Edge { id: "non_ascii_variant_snake", chunk: "#[typeshare]\n#[serde(rename_all = \"snake_case\")]\npub enum NonAsciiE { \u{c9}t\u{e9}, \u{d6}l }\n", kind: FileKind::Text, raw_hex: "", must_fail: false },
    Edge { id: "use_bare_crate", chunk: "use serde;\nuse alpha;\n#[typeshare]\npub struct AfterBareUse { pub v: u32 }\n", kind: FileKind::Text, raw_hex: "", must_fail: false },
    Edge { id: "const_item", chunk: "#[typeshare]\npub const EDGE_LIMIT: u32 = 7;\n", kind: FileKind::Text, raw_hex: "", must_fail: false },
    Edge { id: "dangling_symlink", chunk: "", kind: FileKind::DanglingSymlink, raw_hex: "", must_fail: false },
    Edge { id: "dir_named_rs", chunk: "", kind: FileKind::Directory, raw_hex: "", must_fail: false },
    Edge { id: "symlink_loop", chunk: "", kind: FileKind::SymlinkLoop, raw_hex: "", must_fail: false },
    Edge { id: "only_unannotated", chunk: "pub struct NotShared { pub v: u64 }\n", kind: FileKind::Text, raw_hex: "", must_fail: false },
    Edge { id: "generic_struct", chunk: "#[typeshare]\npub struct Page<T> { pub items: Vec<T>, pub next: Option<String> }\n", kind: FileKind::Text, raw_hex: "", must_fail: false },
    Edge { id: "char_and_unit", chunk: "#[typeshare]\npub struct Odd { pub c: char, pub u: (), pub a: [u8; 4], pub s: Vec<()> }\n", kind: FileKind::Text, raw_hex: "", must_fail: false },
    Edge { id: "empty_enum", chunk: "#[typeshare]\npub enum Never {}\n", kind: FileKind::Text, raw_hex: "", must_fail: false },
    Edge { id: "unit_struct", chunk: "#[typeshare]\npub struct Marker;\n", kind: FileKind::Text, raw_hex: "", must_fail: false },
    Edge { id: "reference_field", chunk: "#[typeshare]\npub struct Borrowed<'a> { pub s: &'a str, pub b: &'a [u8] }\n", kind: FileKind::Text, raw_hex: "", must_fail: false },
    Edge { id: "qualified_path", chunk: "#[typeshare]\npub struct Qualified { pub m: std::collections::HashMap<String, u32>, pub o: core::option::Option<u8> }\n", kind: FileKind::Text, raw_hex: "", must_fail: false },
    Edge { id: "serialized_as_garbage", chunk: "#[typeshare(serialized_as = \"Vec<\")]\npub struct SerAs(String);\n", kind: FileKind::Text, raw_hex: "", must_fail: false },
    Edge { id: "non_ascii_type_name", chunk: "#[typeshare]\n#[serde(tag = \"type\", content = \"content\")]\npub enum \u{c9}tat { Marche(String), Arr\u{ea}t { raison: u32 } }\n#[typeshare]\npub struct \u{d6}sterreich { pub \u{fc}ber: u32 }\n", kind: FileKind::Text, raw_hex: "", must_fail: false },
    Edge { id: "redacted_and_decorators", chunk: "#[typeshare(redacted, swift = \"Equatable, Hashable\", kotlin = \"JvmInline\")]\npub struct Decorated { #[typeshare(typescript(readonly))] pub v: u32 }\n", kind: FileKind::Text, raw_hex: "", must_fail: false },
];

/// C08: the documented unsupported constructs. `poison` is the construct in a non-skipped position
/// (the run must fail), `skipped` the same construct under serde(skip)/typeshare(skip) (the run must
/// succeed), `clean` the item with the construct removed (same generated output as `skipped`).
pub struct Poison {
    pub id: &'static str,
    pub poison: &'static str,
    pub skipped: Option<&'static str>,
}

pub const POISONS: &[Poison] = &[
    Poison { id: "u64_field", poison: "#[typeshare]\npub struct Pz { pub ok: u32, pub big: u64 }\n", skipped: Some("#[typeshare]\npub struct Pz { pub ok: u32, #[serde(skip)] pub big: u64 }\n") },
    Poison { id: "i64_field", poison: "#[typeshare]\npub struct Pz { pub ok: u32, pub big: i64 }\n", skipped: Some("#[typeshare]\npub struct Pz { pub ok: u32, #[typeshare(skip)] pub big: i64 }\n") },
    Poison { id: "usize_field", poison: "#[typeshare]\npub struct Pz { pub ok: u32, pub big: usize }\n", skipped: Some("#[typeshare]\npub struct Pz { pub ok: u32, #[serde(skip)] pub big: usize }\n") },
    Poison { id: "isize_field", poison: "#[typeshare]\npub struct Pz { pub ok: u32, pub big: isize }\n", skipped: Some("#[typeshare]\npub struct Pz { pub ok: u32, #[typeshare(skip)] pub big: isize }\n") },
    Poison { id: "u64_nested", poison: "#[typeshare]\npub struct Pz { pub ok: u32, pub big: Option<Vec<u64>> }\n", skipped: Some("#[typeshare]\npub struct Pz { pub ok: u32, #[serde(skip)] pub big: Option<Vec<u64>> }\n") },
    Poison { id: "i64_in_map", poison: "#[typeshare]\npub struct Pz { pub ok: u32, pub big: HashMap<String, Vec<Option<i64>>> }\n", skipped: Some("#[typeshare]\npub struct Pz { pub ok: u32, #[serde(skip)] pub big: HashMap<String, Vec<Option<i64>>> }\n") },
    Poison { id: "u64_serialized_as", poison: "#[typeshare]\npub struct Pz { pub ok: u32, #[typeshare(serialized_as = \"u64\")] pub big: String }\n", skipped: Some("#[typeshare]\npub struct Pz { pub ok: u32, #[serde(skip)] #[typeshare(serialized_as = \"u64\")] pub big: String }\n") },
    Poison { id: "usize_serialized_as_nested", poison: "#[typeshare]\npub struct Pz { pub ok: u32, #[typeshare(serialized_as = \"Option<Vec<usize>>\")] pub big: String }\n", skipped: Some("#[typeshare]\npub struct Pz { pub ok: u32, #[typeshare(skip)] #[typeshare(serialized_as = \"Option<Vec<usize>>\")] pub big: String }\n") },
    Poison { id: "tuple_field", poison: "#[typeshare]\npub struct Pz { pub ok: u32, pub pair: (u32, String) }\n", skipped: Some("#[typeshare]\npub struct Pz { pub ok: u32, #[serde(skip)] pub pair: (u32, String) }\n") },
    Poison { id: "tuple_in_vec", poison: "#[typeshare]\npub struct Pz { pub ok: u32, pub pairs: Vec<(u32, String)> }\n", skipped: Some("#[typeshare]\npub struct Pz { pub ok: u32, #[serde(skip)] pub pairs: Vec<(u32, String)> }\n") },
    Poison { id: "tuple_struct_2", poison: "#[typeshare]\npub struct Pz(u32, String);\n", skipped: None },
    Poison { id: "tuple_struct_2_first_skipped", poison: "#[typeshare]\npub struct Pz(#[serde(skip)] pub String, pub u64);\n", skipped: None },
    Poison { id: "tuple_struct_2_second_skipped", poison: "#[typeshare]\npub struct Pz(pub String, #[serde(skip)] pub String);\n", skipped: None },
    Poison { id: "tuple_variant_2", poison: "#[typeshare]\n#[serde(tag = \"type\", content = \"content\")]\npub enum Pz { Ok(u32), Two(u32, String) }\n", skipped: Some("#[typeshare]\n#[serde(tag = \"type\", content = \"content\")]\npub enum Pz { Ok(u32), #[serde(skip)] Two(u32, String) }\n") },
    Poison { id: "flatten", poison: "#[typeshare]\npub struct Pz { pub ok: u32, #[serde(flatten)] pub rest: HashMap<String, String> }\n", skipped: Some("#[typeshare]\npub struct Pz { pub ok: u32, #[serde(skip)] #[serde(flatten)] pub rest: HashMap<String, String> }\n") },
    Poison { id: "enum_without_tag_content", poison: "#[typeshare]\npub enum Pz { Ok, Data(String) }\n", skipped: Some("#[typeshare]\npub enum Pz { Ok, #[serde(skip)] Data(String) }\n") },
    Poison { id: "enum_tag_only", poison: "#[typeshare]\n#[serde(tag = \"type\")]\npub enum Pz { Ok, Data(String) }\n", skipped: None },
    Poison { id: "enum_content_only", poison: "#[typeshare]\n#[serde(content = \"content\")]\npub enum Pz { Ok, Data { v: u32 } }\n", skipped: None },
    Poison { id: "enum_tag_only_struct_variants", poison: "#[typeshare]\n#[serde(tag = \"type\")]\npub enum Pz { Idle, Data { v: u32 }, More { a: String, b: bool } }\n", skipped: None },
    Poison { id: "enum_content_only_tuple", poison: "#[typeshare]\n#[serde(content = \"c\")]\npub enum Pz { Idle, Data(String) }\n", skipped: None },
    Poison { id: "enum_no_attrs_struct_variant", poison: "#[typeshare]\npub enum Pz { Idle, Data { v: u32 } }\n", skipped: Some("#[typeshare]\npub enum Pz { Idle, #[serde(skip)] Data { v: u32 } }\n") },
    Poison { id: "flatten_in_second_serde_attr", poison: "#[typeshare]\npub struct Pz { pub ok: u32, #[serde(rename = \"r\")] #[serde(flatten)] pub rest: HashMap<String, String> }\n", skipped: Some("#[typeshare]\npub struct Pz { pub ok: u32, #[serde(rename = \"r\")] #[serde(flatten)] #[serde(skip)] pub rest: HashMap<String, String> }\n") },
    Poison { id: "flatten_after_default_same_attr", poison: "#[typeshare]\npub struct Pz { pub ok: u32, #[serde(default, flatten)] pub rest: HashMap<String, String> }\n", skipped: Some("#[typeshare]\npub struct Pz { pub ok: u32, #[serde(default, flatten, skip)] pub rest: HashMap<String, String> }\n") },
    Poison { id: "flatten_in_second_serde_attr_struct_variant", poison: "#[typeshare]\n#[serde(tag = \"type\", content = \"content\")]\npub enum Pz { Ok(u32), Shape { w: u32, #[serde(default)] #[doc = \"x\"] #[serde(flatten)] rest: HashMap<String, String> } }\n", skipped: None },
    Poison { id: "u64_skip_in_second_serde_attr", poison: "#[typeshare]\npub struct Pz { pub ok: u32, #[serde(default)] pub big: u64 }\n", skipped: Some("#[typeshare]\npub struct Pz { pub ok: u32, #[serde(default)] #[serde(skip)] pub big: u64 }\n") },
    Poison { id: "tag_in_second_serde_attr_on_unit_enum", poison: "#[typeshare]\n#[serde(rename_all = \"camelCase\")]\n#[serde(tag = \"type\")]\npub enum Pz { A, B }\n", skipped: None },
    Poison { id: "tag_content_split_missing_content", poison: "#[typeshare]\n#[serde(rename_all = \"camelCase\")]\n#[serde(tag = \"type\")]\npub enum Pz { Ok(u32), Other(String) }\n", skipped: None },
    Poison { id: "flatten_in_struct_variant", poison: "#[typeshare]\n#[serde(tag = \"type\", content = \"content\")]\npub enum Pz { Ok(u32), Shape { w: u32, #[serde(flatten)] rest: HashMap<String, String> } }\n", skipped: Some("#[typeshare]\n#[serde(tag = \"type\", content = \"content\")]\npub enum Pz { Ok(u32), Shape { w: u32, #[serde(skip)] #[serde(flatten)] rest: HashMap<String, String> } }\n") },
    Poison { id: "const_u64_type", poison: "#[typeshare]\npub const PZ: u64 = 5;\n", skipped: None },
    Poison { id: "const_float_literal", poison: "#[typeshare]\npub const PZ: f64 = 1.5;\n", skipped: None },
    Poison { id: "const_bool_literal", poison: "#[typeshare]\npub const PZ: bool = true;\n", skipped: None },
    Poison { id: "u64_with_ts_type_decorator", poison: "#[typeshare]\npub struct Pz { pub ok: u32, #[typeshare(typescript(type = \"bigint\"))] pub big: u64 }\n", skipped: Some("#[typeshare]\npub struct Pz { pub ok: u32, #[serde(skip)] #[typeshare(typescript(type = \"bigint\"))] pub big: u64 }\n") },
    Poison { id: "usize_with_kotlin_swift_type_decorators", poison: "#[typeshare]\npub struct Pz { pub ok: u32, #[typeshare(kotlin(type = \"ULong\"), swift(type = \"UInt64\"))] pub big: Vec<usize> }\n", skipped: Some("#[typeshare]\npub struct Pz { pub ok: u32, #[typeshare(skip)] #[typeshare(kotlin(type = \"ULong\"), swift(type = \"UInt64\"))] pub big: Vec<usize> }\n") },
    Poison { id: "tag_on_unit_enum", poison: "#[typeshare]\n#[serde(tag = \"type\")]\npub enum Pz { A, B }\n", skipped: None },
    Poison { id: "content_on_unit_enum", poison: "#[typeshare]\n#[serde(tag = \"type\", content = \"content\")]\npub enum Pz { A, B }\n", skipped: None },
    Poison { id: "const_string", poison: "#[typeshare]\npub const PZ: &str = \"nope\";\n", skipped: None },
    Poison { id: "const_expr", poison: "#[typeshare]\npub const PZ: u32 = LIMIT;\n", skipped: None },
    Poison { id: "const_vec_type", poison: "#[typeshare]\npub const PZ: Vec<u32> = 5;\n", skipped: None },
    Poison { id: "alias_to_u64", poison: "#[typeshare]\npub type Pz = Vec<u64>;\n", skipped: None },
    Poison { id: "newtype_u64", poison: "#[typeshare]\npub struct Pz(Option<u64>);\n", skipped: None },
    Poison { id: "variant_payload_i64", poison: "#[typeshare]\n#[serde(tag = \"type\", content = \"content\")]\npub enum Pz { Ok(u32), Big(Vec<i64>) }\n", skipped: Some("#[typeshare]\n#[serde(tag = \"type\", content = \"content\")]\npub enum Pz { Ok(u32), #[typeshare(skip)] Big(Vec<i64>) }\n") },
    Poison { id: "anon_variant_field_u64", poison: "#[typeshare]\n#[serde(tag = \"type\", content = \"content\")]\npub enum Pz { Ok(u32), Shape { w: u32, h: u64 } }\n", skipped: Some("#[typeshare]\n#[serde(tag = \"type\", content = \"content\")]\npub enum Pz { Ok(u32), Shape { w: u32, #[serde(skip)] h: u64 } }\n") },
];

/// An unsupported construct at a generated position (C08's quantifier: field, variant payload,
/// generic argument, inside Vec/Option/HashMap/Box chains up to depth 5, alias target,
/// serialized_as string), with the same construct under a skip marker where the position allows one.
pub struct GenPoison {
    pub id: String,
    pub poison: String,
    pub skipped: Option<String>,
}

pub fn gen_nested_poison(r: &mut Rng) -> GenPoison {
    let bases = ["u64", "i64", "usize", "isize", "(u32, String)", "(u8,)", "std::primitive::u64", "core::primitive::isize"];
    let base = *r.pick(&bases[..]);
    let depth = r.below(6);
    let mut ty = base.to_string();
    let mut chain = vec![];
    for _ in 0..depth {
        let w = r.below(12);
        ty = match w {
            0 => format!("Vec<{ty}>"),
            1 => format!("Option<{ty}>"),
            2 => format!("HashMap<String, {ty}>"),
            3 => format!("Box<{ty}>"),
            4 => format!("Arc<{ty}>"),
            5 => format!("[{ty}; 3]"),
            6 => format!("HashMap<{ty}, String>"),
            7 => format!("Pair<String, {ty}>"),
            8 => format!("&'static {ty}"),
            9 => format!("Rc<RefCell<{ty}>>"),
            10 => format!("std::vec::Vec<{ty}>"),
            _ => format!("Wrapper<{ty}>"),
        };
        chain.push(w);
    }
    let id = format!("gen/{}/{}", base.replace(' ', ""), chain.iter().map(|c| c.to_string()).collect::<String>());
    let pos = r.below(11);
    let (poison, skipped) = match pos {
        7 => (
            // last field, next to a defaulted one
            format!("#[typeshare]\npub struct Pz {{ #[serde(default)] pub ok: u32, pub mid: String, #[serde(default)] pub big: {ty} }}\n"),
            Some(format!("#[typeshare]\npub struct Pz {{ #[serde(default)] pub ok: u32, pub mid: String, #[serde(default, skip)] pub big: {ty} }}\n")),
        ),
        8 => (format!("#[typeshare(serialized_as = \"{ty}\")]\npub struct Pz(String);\n"), None),
        9 => (
            // generic item
            format!("#[typeshare]\npub struct Pz<T> {{ pub ok: T, pub big: {ty} }}\n"),
            Some(format!("#[typeshare]\npub struct Pz<T> {{ pub ok: T, #[typeshare(skip)] pub big: {ty} }}\n")),
        ),
        10 => (
            // first field
            format!("#[typeshare]\npub struct Pz {{ pub big: {ty}, pub ok: u32 }}\n"),
            Some(format!("#[typeshare]\npub struct Pz {{ #[serde(skip)] pub big: {ty}, pub ok: u32 }}\n")),
        ),
        0 => (
            format!("#[typeshare]\npub struct Pz {{ pub ok: u32, pub big: {ty} }}\n"),
            Some(format!("#[typeshare]\npub struct Pz {{ pub ok: u32, #[serde(skip)] pub big: {ty} }}\n")),
        ),
        1 => (
            format!("#[typeshare]\n#[serde(tag = \"type\", content = \"content\")]\npub enum Pz {{ Ok(u32), Big({ty}) }}\n"),
            Some(format!("#[typeshare]\n#[serde(tag = \"type\", content = \"content\")]\npub enum Pz {{ Ok(u32), #[serde(skip)] Big({ty}) }}\n")),
        ),
        2 => (
            format!("#[typeshare]\n#[serde(tag = \"type\", content = \"content\")]\npub enum Pz {{ Ok(u32), Shape {{ w: u32, h: {ty} }} }}\n"),
            Some(format!("#[typeshare]\n#[serde(tag = \"type\", content = \"content\")]\npub enum Pz {{ Ok(u32), Shape {{ w: u32, #[serde(skip)] h: {ty} }} }}\n")),
        ),
        3 => (format!("#[typeshare]\npub type Pz = {ty};\n"), None),
        4 => (format!("#[typeshare]\npub struct Pz({ty});\n"), None),
        5 => (
            format!("#[typeshare]\npub struct Pz {{ pub ok: u32, #[typeshare(serialized_as = \"{ty}\")] pub big: String }}\n"),
            Some(format!("#[typeshare]\npub struct Pz {{ pub ok: u32, #[serde(skip)] #[typeshare(serialized_as = \"{ty}\")] pub big: String }}\n")),
        ),
        _ => (
            format!("#[typeshare]\npub struct PzPage<T> {{ pub items: Vec<T> }}\n#[typeshare]\npub struct Pz {{ pub ok: u32, pub page: PzPage<{ty}> }}\n"),
            Some(format!("#[typeshare]\npub struct PzPage<T> {{ pub items: Vec<T> }}\n#[typeshare]\npub struct Pz {{ pub ok: u32, #[typeshare(skip)] pub page: PzPage<{ty}> }}\n")),
        ),
    };
    GenPoison { id: format!("{id}@{pos}"), poison, skipped }
}
