//! Executes invocations of the real CLI code under the simulator.

use super::model::*;
use crate::ctx::{self, ChanEv, CrashPayload, Ctx, FsOp, PanicRec};
use crate::rng::{fnv, fnv_more};
use crate::sched::{SchedSpec, SimScheduler};
use serde::{Deserialize, Serialize};
use std::collections::BTreeMap;
use std::os::unix::fs::MetadataExt;
use std::path::{Path, PathBuf};
use std::sync::OnceLock;

pub type RunOnce = fn(Vec<String>) -> Result<(), String>;

/// invocations found spinning on the CPU outside any scheduling point (their OS threads are leaked)
static SPINS: std::sync::atomic::AtomicU32 = std::sync::atomic::AtomicU32::new(0);
pub fn add_spins(n: u32) {
    SPINS.fetch_add(n, std::sync::atomic::Ordering::SeqCst);
}
pub fn spin_count() -> u32 {
    SPINS.load(std::sync::atomic::Ordering::SeqCst)
}
/// CPU seconds one invocation may burn between two scheduling points before it counts as spinning
pub const SPIN_CPU_SECS: f64 = 10.0;

fn thread_cpu_secs(tid: i32) -> Option<f64> {
    let s = std::fs::read_to_string(format!("/proc/self/task/{tid}/stat")).ok()?;
    let rest = s.rsplit_once(')')?.1;
    let f: Vec<&str> = rest.split_whitespace().collect();
    // after the command name: state is f[0]; utime and stime are fields 14 and 15 of the line
    let ut: f64 = f.get(11)?.parse().ok()?;
    let st: f64 = f.get(12)?.parse().ok()?;
    let hz = unsafe { libc::sysconf(libc::_SC_CLK_TCK) } as f64;
    Some((ut + st) / hz.max(1.0))
}

static RUN_ONCE: OnceLock<RunOnce> = OnceLock::new();

#[derive(Clone, Debug, Serialize, Deserialize, PartialEq, Eq)]
pub enum ResultClass {
    Ok,
    Err,
    Panic,
    Deadlock,
    NoProgress,
    Crashed,
}

#[derive(Clone, Debug, Serialize, Deserialize, PartialEq, Eq)]
pub struct FileStat {
    pub bytes: Vec<u8>,
    pub ino: u64,
    pub mtime_ns: i128,
}

/// path (relative to the output location) -> file
pub type Snapshot = BTreeMap<String, FileStat>;

#[derive(Clone, Debug)]
pub struct Outcome {
    pub class: ResultClass,
    pub err_text: String,
    pub diags: Vec<(u8, String)>,
    pub oplog: Vec<FsOp>,
    pub chanlog: Vec<ChanEv>,
    pub arrival: Vec<u32>,
    pub panics: Vec<PanicRec>,
    pub panic_message: String,
    pub probes: BTreeMap<&'static str, u64>,
    pub fired: BTreeMap<String, u64>,
    pub schedule: Vec<u16>,
    pub steps: usize,
    pub switches: usize,
    pub replay_diverged: bool,
    pub pipe_states: std::collections::BTreeSet<(u32, u32, bool)>,
    pub hash_calls: u64,
    pub max_tasks: usize,
    /// output location before / after the invocation
    pub before: Snapshot,
    pub after: Snapshot,
}

impl Outcome {
    /// placeholder for history steps that are not CLI invocations (manual edits of the output)
    pub fn placeholder(before: Snapshot, after: Snapshot) -> Outcome {
        Outcome {
            class: ResultClass::Ok,
            err_text: String::new(),
            diags: vec![],
            oplog: vec![],
            chanlog: vec![],
            arrival: vec![],
            panics: vec![],
            panic_message: String::new(),
            probes: Default::default(),
            fired: Default::default(),
            schedule: vec![],
            steps: 0,
            switches: 0,
            replay_diverged: false,
            pipe_states: Default::default(),
            hash_calls: 0,
            max_tasks: 0,
            before,
            after,
        }
    }
    pub fn errors(&self) -> Vec<&str> {
        self.diags.iter().filter(|d| d.0 == log::Level::Error as u8).map(|d| d.1.as_str()).collect()
    }
    /// panic site of the first recorded panic, `file:line`
    pub fn panic_site(&self) -> String {
        self.panics.first().map(|p| p.location.clone()).unwrap_or_else(|| "unknown".into())
    }
    /// digest of everything observable about this invocation (event log)
    pub fn digest(&self) -> u64 {
        let mut h = fnv(format!("{:?}|{}", self.class, self.err_text).as_bytes());
        for d in &self.diags {
            h = fnv_more(h, &[d.0]);
            h = fnv_more(h, d.1.as_bytes());
        }
        for o in &self.oplog {
            h = fnv_more(h, format!("{}|{}|{}|{:?}|{}", o.op, o.path, o.bytes, o.fault, o.result).as_bytes());
        }
        for c in &self.chanlog {
            h = fnv_more(h, format!("{}|{}|{}|{}", c.ev, c.task, c.file, c.qlen).as_bytes());
        }
        for p in &self.panics {
            h = fnv_more(h, p.location.as_bytes());
        }
        for s in &self.schedule {
            h = fnv_more(h, &s.to_le_bytes());
        }
        for (k, v) in &self.after {
            h = fnv_more(h, k.as_bytes());
            h = fnv_more(h, &v.bytes);
        }
        h
    }
    pub fn out_bytes(&self) -> BTreeMap<String, Vec<u8>> {
        self.after.iter().filter(|(k, _)| !k.ends_with('/')).map(|(k, v)| (k.clone(), v.bytes.clone())).collect()
    }
}

// ------------------------------------------------------------------------------------------------
// global one-time setup: logger and panic hook
// ------------------------------------------------------------------------------------------------

struct SimLog;
impl log::Log for SimLog {
    fn enabled(&self, m: &log::Metadata) -> bool {
        m.level() <= log::Level::Warn
    }
    fn log(&self, r: &log::Record) {
        if r.level() <= log::Level::Warn {
            let text = format!("{}", r.args());
            ctx::with(|c| {
                let t = ctx::scrub(&c.root, &text);
                c.diags.push((r.level() as u8, t));
            });
        }
    }
    fn flush(&self) {}
}
static SIMLOG: SimLog = SimLog;

pub fn global_init(run_once: RunOnce) {
    let _ = RUN_ONCE.set(run_once);
    // error chains must not carry captured backtraces (slow, and not part of the diagnostics)
    std::env::set_var("RUST_LIB_BACKTRACE", "0");
    std::env::set_var("RUST_BACKTRACE", "0");
    let _ = log::set_logger(&SIMLOG);
    log::set_max_level(log::LevelFilter::Warn);
    // Prime shuttle once so that its own panic hook is installed (it does so exactly once, wrapping
    // the hook present at that time); then replace it with ours, which records instead of printing.
    {
        let (s, _st) = SimScheduler::new(SchedSpec::Sticky, crate::sched::step_budget(0));
        let mut cfg = shuttle::Config::new();
        cfg.failure_persistence = shuttle::FailurePersistence::None;
        cfg.silence_warnings = true;
        shuttle::Runner::new(s, cfg).run(|| {});
    }
    let default_hook = std::panic::take_hook();
    let _ = default_hook; // shuttle's wrapper around the default hook; dropped
    std::panic::set_hook(Box::new(|info| {
        if info.payload().downcast_ref::<CrashPayload>().is_some() || info.payload().downcast_ref::<crate::ctx::ExitPayload>().is_some() {
            return;
        }
        let loc = info.location().map(|l| format!("{}:{}", short_path(l.file()), l.line())).unwrap_or_default();
        let msg = if let Some(s) = info.payload().downcast_ref::<&str>() {
            s.to_string()
        } else if let Some(s) = info.payload().downcast_ref::<String>() {
            s.clone()
        } else {
            "<non-string payload>".to_string()
        };
        let recorded = ctx::with(|c| {
            c.panics.push(PanicRec { location: loc.clone(), message: msg.clone() });
        });
        if recorded.is_none() {
            eprintln!("[simcli driver panic] {loc}: {msg}");
        }
    }));
}

fn short_path(p: &str) -> String {
    // keep panic sites stable and readable: strip the /repo prefix and registry prefixes
    if let Some(i) = p.find("/repo/") {
        return p[i + 6..].to_string();
    }
    if let Some(i) = p.find("/registry/src/") {
        let rest = &p[i + 14..];
        if let Some(j) = rest.find('/') {
            return rest[j + 1..].to_string();
        }
    }
    if let Some(i) = p.find("/verif/sim/") {
        return p[i + 11..].to_string();
    }
    p.to_string()
}

// ------------------------------------------------------------------------------------------------
// scratch workspace
// ------------------------------------------------------------------------------------------------

pub struct Scratch {
    pub root: PathBuf,
    current_version: Option<u64>,
}

impl Scratch {
    pub fn new(base: &Path, name: &str) -> Self {
        let root = base.join(name);
        let _ = std::fs::remove_dir_all(&root);
        std::fs::create_dir_all(root.join("ws")).expect("scratch dir");
        Scratch { root, current_version: None }
    }
    pub fn ws(&self) -> PathBuf {
        self.root.join("ws")
    }
    pub fn out(&self) -> PathBuf {
        self.root.join("out")
    }
    pub fn refout(&self) -> PathBuf {
        self.root.join("ref")
    }

    pub fn materialise(&mut self, tree: &Tree) {
        let mut h = 0xABCDu64;
        for f in tree {
            h = fnv_more(h, f.path.as_bytes());
            h = fnv_more(h, &f.bytes());
            h = fnv_more(h, format!("{:?}", f.kind).as_bytes());
        }
        if self.current_version == Some(h) {
            return;
        }
        let ws = self.ws();
        let _ = std::fs::remove_dir_all(&ws);
        std::fs::create_dir_all(&ws).expect("ws dir");
        for f in tree {
            let p = ws.join(decode_path(&f.path));
            if let Some(parent) = p.parent() {
                std::fs::create_dir_all(parent).expect("src parent");
            }
            match f.kind {
                FileKind::Text => std::fs::write(&p, f.bytes()).expect("src write"),
                FileKind::DanglingSymlink => {
                    std::os::unix::fs::symlink(ws.join("does/not/exist.rs"), &p).expect("symlink")
                }
                FileKind::Directory => std::fs::create_dir_all(&p).expect("dir"),
                FileKind::SymlinkLoop => std::os::unix::fs::symlink("..", &p).expect("symlink loop"),
                FileKind::SymlinkToFile => {
                    // relative link text, as a checkout would contain it
                    let target = f.chunks.first().cloned().unwrap_or_default();
                    let depth = f.path.matches('/').count();
                    let link = format!("{}{}", "../".repeat(depth), target);
                    std::os::unix::fs::symlink(link, &p).expect("symlink to file")
                }
            }
        }
        self.current_version = Some(h);
    }

    pub fn clear_dir(&self, p: &Path) {
        let _ = std::fs::remove_dir_all(p);
        let _ = std::fs::remove_file(p);
    }
}

impl Drop for Scratch {
    fn drop(&mut self) {
        let _ = std::fs::remove_dir_all(&self.root);
    }
}

/// `%XX` escapes in a tree path stand for raw bytes (file names that are not valid UTF-8)
pub fn decode_path(p: &str) -> PathBuf {
    use std::os::unix::ffi::OsStringExt;
    let b = p.as_bytes();
    let mut out = Vec::with_capacity(b.len());
    let mut i = 0;
    while i < b.len() {
        if b[i] == b'%' && i + 2 < b.len() + 0 && i + 2 <= b.len() - 1 + 1 {
            let h = |c: u8| (c as char).to_digit(16);
            if let (Some(a), Some(c)) = (b.get(i + 1).and_then(|x| h(*x)), b.get(i + 2).and_then(|x| h(*x))) {
                out.push((a * 16 + c) as u8);
                i += 3;
                continue;
            }
        }
        out.push(b[i]);
        i += 1;
    }
    PathBuf::from(std::ffi::OsString::from_vec(out))
}

/// how a tree path shows up in logs and diagnostics: lossy (U+FFFD) and Debug-escaped (\xNN)
pub fn path_forms(p: &str) -> Vec<String> {
    let d = decode_path(p);
    let lossy = d.to_string_lossy().into_owned();
    let dbg = format!("{:?}", d);
    let dbg = dbg.trim_matches('"').to_string();
    let mut v = vec![lossy];
    if !v.contains(&dbg) {
        v.push(dbg);
    }
    v
}

pub fn snapshot(loc: &Path) -> Snapshot {
    let mut s = Snapshot::new();
    if let Ok(md) = std::fs::symlink_metadata(loc) {
        if md.is_dir() {
            // the output location itself exists
            s.insert("./".to_string(), FileStat { bytes: vec![], ino: 0, mtime_ns: 0 });
        }
    }
    fn walk(base: &Path, p: &Path, s: &mut Snapshot) {
        let Ok(md) = std::fs::symlink_metadata(p) else { return };
        if md.is_dir() {
            if p != base {
                // directories are part of the observable state, too (key ends in '/')
                let rel = format!("{}/", p.strip_prefix(base).unwrap_or(p).to_string_lossy());
                s.insert(rel, FileStat { bytes: vec![], ino: md.ino(), mtime_ns: 0 });
            }
            let Ok(rd) = std::fs::read_dir(p) else { return };
            let mut names: Vec<_> = rd.filter_map(|e| e.ok()).map(|e| e.path()).collect();
            names.sort();
            for n in names {
                walk(base, &n, s);
            }
        } else {
            let rel = p.strip_prefix(base).unwrap_or(p).to_string_lossy().into_owned();
            let bytes = std::fs::read(p).unwrap_or_default();
            // a link: the inode is the link's, the modification time the one of the file it leads to
            let tmd = if md.file_type().is_symlink() { std::fs::metadata(p).unwrap_or(md.clone()) } else { md.clone() };
            s.insert(
                rel,
                FileStat { bytes, ino: md.ino(), mtime_ns: tmd.mtime() as i128 * 1_000_000_000 + tmd.mtime_nsec() as i128 },
            );
        }
    }
    walk(loc, loc, &mut s);
    s
}

fn set_tree_times(_root: &Path, ws: &Path, cfg: &Path, secs: i64) {
    fn walk(p: &Path, secs: i64) {
        if let Ok(c) = std::ffi::CString::new(p.to_string_lossy().as_bytes()) {
            let t = libc::timespec { tv_sec: secs, tv_nsec: 0 };
            let times = [t, t];
            unsafe {
                libc::utimensat(libc::AT_FDCWD, c.as_ptr(), times.as_ptr(), libc::AT_SYMLINK_NOFOLLOW);
            }
        }
        if let Ok(md) = std::fs::symlink_metadata(p) {
            if md.is_dir() {
                if let Ok(rd) = std::fs::read_dir(p) {
                    for e in rd.flatten() {
                        walk(&e.path(), secs);
                    }
                }
                // the directory's own mtime again (reading does not change it, but be explicit)
                if let Ok(c) = std::ffi::CString::new(p.to_string_lossy().as_bytes()) {
                    let t = libc::timespec { tv_sec: secs, tv_nsec: 0 };
                    let times = [t, t];
                    unsafe {
                        libc::utimensat(libc::AT_FDCWD, c.as_ptr(), times.as_ptr(), 0);
                    }
                }
            }
        }
    }
    walk(ws, secs);
    walk(cfg, secs);
}

/// Give every file below `loc` a distinct, old modification time so that any later write is
/// visible as an mtime change regardless of the file system's timestamp granularity.
pub fn age_files(loc: &Path) {
    let snap = snapshot(loc);
    for (i, (rel, _)) in snap.iter().enumerate() {
        if rel.ends_with('/') {
            continue;
        }
        let p = if rel.is_empty() { loc.to_path_buf() } else { loc.join(rel) };
        let Ok(c) = std::ffi::CString::new(p.to_string_lossy().as_bytes()) else { continue };
        let t = libc::timespec { tv_sec: 1_000_000_000 + i as i64, tv_nsec: 123_456_789 };
        let times = [t, t];
        unsafe {
            libc::utimensat(libc::AT_FDCWD, c.as_ptr(), times.as_ptr(), 0);
        }
    }
}

// ------------------------------------------------------------------------------------------------
// one invocation
// ------------------------------------------------------------------------------------------------

pub fn argv_for(inv: &Inv, ws: &Path, out: &Path, cfg_path: &Path) -> Vec<String> {
    let mut a = vec!["typeshare".to_string()];
    if inv.roots.is_empty() {
        a.push(ws.to_string_lossy().into_owned());
    } else {
        for r in &inv.roots {
            a.push(ws.join(r).to_string_lossy().into_owned());
        }
    }
    a.push("--lang".into());
    a.push(inv.lang.clone());
    a.push("-c".into());
    a.push(cfg_path.to_string_lossy().into_owned());
    match inv.mode {
        Mode::File if inv.out_sub == BARE => {
            // a bare file name, resolved against the process' working directory
            a.push("--output-file".into());
            a.push(bare_name(out, inv));
        }
        Mode::File => {
            a.push("--output-file".into());
            a.push(out.join(inv.out_name()).to_string_lossy().into_owned());
        }
        Mode::Folder => {
            a.push("--output-folder".into());
            let mut p = out.join(&inv.out_sub).to_string_lossy().into_owned();
            if inv.out_sub.ends_with('/') && !p.ends_with('/') {
                p.push('/');
            }
            a.push(p);
        }
    }
    a.extend(inv.extra.iter().cloned());
    a
}

/// marker value of `Inv::out_sub`: the output file is given as a bare relative name
pub const BARE: &str = "<bare>";

/// unique bare file name for this scratch area (the working directory is shared by all threads)
fn bare_name(out: &Path, inv: &Inv) -> String {
    let tag = out.parent().and_then(|p| p.file_name()).map(|n| n.to_string_lossy().into_owned()).unwrap_or_default();
    let leaf = out.file_name().map(|n| n.to_string_lossy().into_owned()).unwrap_or_default();
    format!("bare-{tag}-{leaf}-types.{}", lang_ext(&inv.lang))
}

pub fn file_tags(tree: &Tree) -> BTreeMap<String, u32> {
    let mut paths: Vec<&str> = tree.iter().map(|f| f.path.as_str()).collect();
    paths.sort();
    paths.iter().enumerate().map(|(i, p)| (format!("ws/{}", decode_path(p).to_string_lossy()), i as u32)).collect()
}

/// Run one CLI invocation on a fresh OS thread under the simulator. `out` is the output location
/// (a directory; in single-file mode the file lives inside it).
pub fn run_invocation(scratch: &mut Scratch, tree: &Tree, inv: &Inv, out: &Path) -> Outcome {
    scratch.materialise(tree);
    let cfg_path = scratch.root.join("typeshare.toml");
    std::fs::write(&cfg_path, &inv.config).expect("config write");
    // clock-skew fault: the source tree (and the config file) carry timestamps older than every
    // output file, or from the future; a correct tool never looks at them
    match inv.src_age {
        1 => set_tree_times(&scratch.root, &scratch.ws(), &cfg_path, 500_000_000),
        2 => set_tree_times(&scratch.root, &scratch.ws(), &cfg_path, 4_000_000_000),
        _ => {}
    }
    if inv.fresh_out {
        scratch.clear_dir(out);
    }
    if inv.obstacle == 1 {
        match inv.mode {
            Mode::File => {
                let _ = std::fs::create_dir_all(out.join(inv.out_name()));
            }
            Mode::Folder => {
                if let Some(parent) = out.parent() {
                    let _ = std::fs::create_dir_all(parent);
                }
                let _ = std::fs::write(out, b"in the way\n");
            }
        }
    }
    let before = snapshot(out);
    let argv = argv_for(inv, &scratch.ws(), out, &cfg_path);
    // bare output name: the file lives in the working directory for the duration of the
    // invocation (rename keeps inode and mtime, so the before/after snapshots stay comparable)
    let bare: Option<(PathBuf, PathBuf)> = if inv.mode == Mode::File && inv.out_sub == BARE {
        let cwd = std::env::current_dir().unwrap_or_default();
        let bname = bare_name(out, inv);
        let cwd_file = cwd.join(&bname);
        let home = out.join(inv.out_name());
        // nothing of an earlier case may be lying around under this name (or a name derived from
        // it: temporary files, side files)
        if let Ok(rd) = std::fs::read_dir(&cwd) {
            for e in rd.flatten() {
                if e.file_name().to_string_lossy().contains(&bname) {
                    let _ = std::fs::remove_file(e.path());
                }
            }
        }
        // the output file and its siblings (`types.ts.stamp`, `.types.ts.tmp`, ...) move into
        // the working directory under the bare name
        let leaf = inv.out_name();
        if let Ok(rd) = std::fs::read_dir(out) {
            for e in rd.flatten() {
                let n = e.file_name().to_string_lossy().into_owned();
                if n.contains(&leaf) && e.path().is_file() {
                    let _ = std::fs::rename(e.path(), cwd.join(n.replace(&leaf, &bname)));
                }
            }
        }
        Some((cwd_file, home))
    } else {
        None
    };
    let root = scratch.root.clone();
    let tags = file_tags(tree);
    let budget = crate::sched::step_budget(tree.len());
    let inv2 = inv.clone();
    let run_once = *RUN_ONCE.get().expect("global_init not called");

    let tid_cell = std::sync::Arc::new(std::sync::atomic::AtomicI32::new(0));
    let tid_cell2 = tid_cell.clone();
    // dropped when the invocation thread ends (also by unwinding): wakes the watchdog below
    let (done_tx, done_rx) = std::sync::mpsc::channel::<()>();
    let handle = std::thread::Builder::new()
        .stack_size(1 << 20)
        .spawn(move || {
            let _done = done_tx;
            tid_cell2.store(unsafe { libc::gettid() }, std::sync::atomic::Ordering::SeqCst);
            crate::hashseed::set_thread_hash_seed(inv2.hash_seed | 1);
            crate::hashseed::set_thread_wall_clock(if inv2.wall_clock == 0 { 1_700_000_000 } else { inv2.wall_clock });
            crate::shims::channel::reset();
            let fault_rng = crate::rng::Rng::new(inv2.hash_seed ^ 0xFA17).derive(match &inv2.sched {
                SchedSpec::Random { seed } | SchedSpec::Pct { seed, .. } => *seed,
                _ => 7,
            });
            ctx::install(Ctx {
                root,
                knobs: Some(inv2.knobs.clone()),
                faults: inv2.faults.clone(),
                rng: Some(fault_rng),
                file_tags: tags,
                ..Default::default()
            });
            let (sched, state) = SimScheduler::new(inv2.sched.clone(), budget);
            let mut cfg = shuttle::Config::new();
            cfg.stack_size = 2 << 20;
            cfg.failure_persistence = shuttle::FailurePersistence::None;
            cfg.max_steps = shuttle::MaxSteps::FailAfter(budget);
            cfg.silence_warnings = true;
            let runner = shuttle::Runner::new(sched, cfg);
            let res = std::panic::catch_unwind(std::panic::AssertUnwindSafe(|| {
                runner.run(move || {
                    let r = run_once(argv.clone());
                    ctx::with(|c| c.cli_result = Some(r));
                });
            }));
            let hash_calls = crate::hashseed::calls();
            if crate::hashseed::wall_clock_reads() > 0 {
                ctx::probe("wall_clock_read");
            }
            crate::hashseed::set_thread_hash_seed(0);
            crate::hashseed::set_thread_wall_clock(0);
            // (std::process::exit inside the code under test is not simulated: std allows one exit
            // per process, so it ends the simulator; the wrapper script reports that as exit 2)
            let exit_status: Option<i32> = None;
            let c = ctx::take().expect("ctx vanished");
            let st = state.lock().unwrap();
            let mut panic_message = String::new();
            let class = match res {
                Err(payload) => {
                    // (the "deadlock" shuttle reports after a process::exit is the parked caller)
                    if payload.downcast_ref::<crate::ctx::ExitPayload>().is_some() || exit_status.is_some() {
                        // the code under test ended the process itself: status 0 is success
                        if exit_status.or(payload.downcast_ref::<crate::ctx::ExitPayload>().map(|e| e.0)) == Some(0) {
                            ResultClass::Ok
                        } else {
                            ResultClass::Err
                        }
                    } else if payload.downcast_ref::<CrashPayload>().is_some() || c.crashed {
                        ResultClass::Crashed
                    } else {
                        panic_message = if let Some(s) = payload.downcast_ref::<&str>() {
                            s.to_string()
                        } else if let Some(s) = payload.downcast_ref::<String>() {
                            s.clone()
                        } else {
                            String::new()
                        };
                        if panic_message.starts_with("deadlock!") {
                            ResultClass::Deadlock
                        } else if panic_message.starts_with("exceeded max_steps") {
                            ResultClass::NoProgress
                        } else {
                            ResultClass::Panic
                        }
                    }
                }
                Ok(()) => {
                    if st.no_progress {
                        ResultClass::NoProgress
                    } else {
                        match &c.cli_result {
                            Some(Ok(())) => ResultClass::Ok,
                            Some(Err(_)) => ResultClass::Err,
                            None => ResultClass::NoProgress,
                        }
                    }
                }
            };
            let err_text = match &c.cli_result {
                None if exit_status.map(|s| s != 0).unwrap_or(false) => format!("process::exit({})", exit_status.unwrap_or(0)),
                Some(Err(e)) => {
                    let e = e.split("\n\nStack backtrace:").next().unwrap_or(e);
                    ctx::scrub(&c.root, e)
                }
                _ => String::new(),
            };
            // panics raised by shuttle itself (deadlock report) are not panics of the system
            let panics: Vec<PanicRec> =
                c.panics.into_iter().filter(|p| !p.location.contains("shuttle-engine")).collect();
            Outcome {
                class,
                err_text,
                diags: c.diags,
                oplog: c.oplog,
                chanlog: c.chanlog,
                arrival: c.arrival,
                panics,
                panic_message,
                probes: c.probes,
                fired: c.fired,
                schedule: st.chosen.clone(),
                steps: st.steps,
                switches: st.switches,
                replay_diverged: st.replay_diverged,
                pipe_states: c.pipe_states,
                hash_calls,
                max_tasks: st.max_tasks,
                before: Snapshot::new(),
                after: Snapshot::new(),
            }
        })
        .expect("spawn invocation thread");
    // watchdog: code that blocks on a primitive the simulator does not own (a std Mutex held across
    // a scheduling point, a std Condvar) would block this OS thread for real. That is a limit of the
    // simulator, not a verdict: report it as a harness error instead of hanging the check.
    // CPU time is sampled per 250 ms window and a window counts for at most 0.3 s: a spin is ten
    // seconds of *sustained* consumption. (A single jump of the thread's CPU clock - the VM being
    // paused for a snapshot while the thread was running put 38 "CPU seconds" on four threads at
    // once - is one window, not a spin.)
    let mut windows = 0u32;
    let mut last_cpu: Option<f64> = None;
    let mut busy = 0.0f64;
    while let Err(std::sync::mpsc::RecvTimeoutError::Timeout) = done_rx.recv_timeout(std::time::Duration::from_millis(250)) {
        windows += 1;
        {
            // an invocation normally takes about a millisecond. One that keeps burning CPU without
            // reaching a scheduling point is spinning in the code under test (a busy loop the
            // scheduler cannot see); its OS thread cannot be stopped and is leaked.
            let tid = tid_cell.load(std::sync::atomic::Ordering::SeqCst);
            if let Some(cpu_now) = thread_cpu_secs(tid) {
                if let Some(prev) = last_cpu {
                    let d = (cpu_now - prev).max(0.0);
                    if d >= 0.1 {
                        busy += d.min(0.3);
                    } else {
                        busy = 0.0;
                    }
                }
                last_cpu = Some(cpu_now);
                let cpu = busy;
                if windows > 12 && cpu >= SPIN_CPU_SECS {
                    SPINS.fetch_add(1, std::sync::atomic::Ordering::SeqCst);
                    std::mem::forget(handle);
                    return Outcome {
                        class: ResultClass::NoProgress,
                        err_text: String::new(),
                        diags: vec![],
                        oplog: vec![],
                        chanlog: vec![],
                        arrival: vec![],
                        panics: vec![],
                        panic_message: format!("uncontrolled_spin: {cpu:.0} CPU seconds of sustained consumption without reaching a scheduling point"),
                        probes: Default::default(),
                        fired: Default::default(),
                        schedule: vec![],
                        steps: 0,
                        switches: 0,
                        replay_diverged: false,
                        pipe_states: Default::default(),
                        hash_calls: 0,
                        max_tasks: 0,
                        before,
                        after: Snapshot::new(),
                    };
                }
            }
        }
        // (windows, not wall-clock time: a clock jump is not two minutes of waiting)
        if windows > 480 {
            println!("HARNESS-ERROR an invocation blocked outside the simulator for 120 s (unsimulated blocking primitive?): {:?} {:?}", inv.lang, inv.mode);
            std::process::exit(2);
        }
    }
    let mut o = handle.join().expect("invocation thread must not die");
    if let Some((cwd_file, _home)) = &bare {
        let name = cwd_file.file_name().map(|n| n.to_string_lossy().into_owned()).unwrap_or_default();
        // ... and back into the output location afterwards
        let cwd = std::env::current_dir().unwrap_or_default();
        let leaf = inv.out_name();
        if let Ok(rd) = std::fs::read_dir(&cwd) {
            for e in rd.flatten() {
                let n = e.file_name().to_string_lossy().into_owned();
                if n.contains(&name) && e.path().is_file() {
                    let _ = std::fs::create_dir_all(out);
                    let _ = std::fs::rename(e.path(), out.join(n.replace(&name, &leaf)));
                }
            }
        }
        // the unique bare name depends on the scratch area: keep it out of the event log
        let canonical = format!("out/{}", inv.out_name());
        for op in o.oplog.iter_mut() {
            // (also names derived from it, e.g. a temporary file next to the target)
            if op.path.contains(&name) {
                op.path = op.path.replace(&name, &canonical);
            }
        }
        o.err_text = o.err_text.replace(&name, &canonical);
        for d in o.diags.iter_mut() {
            d.1 = d.1.replace(&name, &canonical);
        }
    }
    o.before = before;
    o.after = snapshot(out);
    o
}
