//! Seam-completeness guard (scans the generated source tree sim/gen, i.e. /repo's sources after
//! tools/seam_inject.py): a module that carries the module-level alias `use verif_rt::{shim as std, ..}`
//! has its threads, locks, channels and file system behind the seams by construction; only effect
//! kinds the simulator does not model (processes, sockets, foreign thread pools, randomness) are
//! reported there. In a module without the alias every effect site (threads, channels, file system, environment, clocks,
//! randomness, processes) in the non-test sources of /repo must be one the simulator owns or one
//! known to be harmless. A new site is reported (non-fatally) because the simulator could no longer
//! claim to control it; the state-based oracles (output snapshots) still see its effects.

use std::path::Path;

const PATTERNS: &[&str] = &[
    "std::thread", "thread::", "crossbeam", "std::fs", "fs::", "File::", "OpenOptions", "std::env", "env::", "Instant", "SystemTime",
    "rand::", "std::process", "process::", "Command::", "std::net", "rayon", "tokio::", "mpsc", "Mutex", "RwLock", "Condvar", "Atomic",
];

/// effect kinds the seams do not model: reported even in modules that carry the alias
const UNMODELLED: &[&str] = &["std::process", "process::", "Command::", "std::net", "rayon", "tokio::", "rand::"];

/// (file suffix, enclosing fn or "" for module level)
const ALLOWED: &[(&str, &str)] = &[
    ("cli/src/writer.rs", "check_write_file"),
    ("cli/src/writer.rs", ""),
    ("cli/src/config.rs", "store_config"),
    ("cli/src/config.rs", "load_config"),
    ("cli/src/config.rs", "find_configuration_file"),
    ("cli/src/config.rs", ""),
    ("cli/src/parse.rs", "parse_file_context"),
    ("cli/src/parse.rs", "parallel_parse"),
    ("cli/src/parse.rs", ""),
    ("core/src/language/swift.rs", "write_codable_file"),
    ("core/src/language/swift.rs", ""),
    ("cli/src/main.rs", "main"),
];

fn strip(line: &str) -> String {
    // drop line comments and string literals
    let mut out = String::new();
    let mut in_str = false;
    let mut prev = ' ';
    let cs: Vec<char> = line.chars().collect();
    let mut i = 0;
    while i < cs.len() {
        let c = cs[i];
        if !in_str && c == '/' && i + 1 < cs.len() && cs[i + 1] == '/' {
            break;
        }
        if c == '"' && prev != '\\' {
            in_str = !in_str;
        } else if !in_str {
            out.push(c);
        }
        prev = c;
        i += 1;
    }
    out
}

fn scan_file(root: &Path, rel: &str, out: &mut Vec<String>) {
    let Ok(text) = std::fs::read_to_string(root.join(rel)) else { return };
    let covered = text.lines().any(|l| (l.starts_with("use verif_rt::") || l.starts_with("#[cfg(typeshare_verif)] #[allow(unused_imports)] use verif_rt::")) && l.contains("shim as std"));
    let patterns: &[&str] = if covered { UNMODELLED } else { PATTERNS };
    let mut cur_fn = String::new();
    let mut depth_at_fn = 0i32;
    let mut depth = 0i32;
    let mut in_test_mod = false;
    let mut test_depth = 0i32;
    let mut pending_cfg_test = false;
    for (ln, line) in text.lines().enumerate() {
        let code = strip(line);
        let t = code.trim();
        if t.starts_with("#[cfg(test)]") {
            pending_cfg_test = true;
        }
        if pending_cfg_test && t.starts_with("mod ") {
            in_test_mod = true;
            test_depth = depth;
            pending_cfg_test = false;
        } else if pending_cfg_test && !t.starts_with("#[") && !t.is_empty() {
            pending_cfg_test = false;
        }
        if let Some(i) = t.find("fn ") {
            let before = &t[..i];
            if before.chars().all(|c| c.is_alphanumeric() || c == ' ' || c == '(' || c == ')' || c == '_') && depth <= depth_at_fn.max(2) {
                let name: String = t[i + 3..].chars().take_while(|c| c.is_alphanumeric() || *c == '_').collect();
                if !name.is_empty() && (cur_fn.is_empty() || depth <= depth_at_fn) {
                    cur_fn = name;
                    depth_at_fn = depth;
                }
            }
        }
        if !in_test_mod && (t.starts_with("static ") || t.starts_with("pub static ") || t.starts_with("pub(crate) static ") || t.contains("thread_local!")) {
            let mutable = ["Atomic", "Mutex", "RwLock", " Cell<", "RefCell<", "static mut", "thread_local!"].iter().any(|m| t.contains(m));
            if mutable && !t.contains("verif_rt") {
                out.push(format!(
                    "{rel}:{}: `{}`: process-wide mutable state is shared by all simulated invocations of a worker process (a real process starts fresh)",
                    ln + 1,
                    t
                ));
            }
        }
        if !in_test_mod && !t.starts_with("use ") && !t.starts_with("pub use ") {
            for p in patterns {
                if t.contains(p) {
                    // verification hooks themselves are fine
                    if t.contains("verif_rt") || t.contains("cfg(typeshare_verif)") {
                        break;
                    }
                    let f = if depth == 0 { "" } else { cur_fn.as_str() };
                    let ok = ALLOWED.iter().any(|(file, func)| rel.ends_with(file) && *func == f);
                    if !ok {
                        out.push(format!("{rel}:{}: `{}` in fn `{}` is not behind a simulator seam", ln + 1, t, f));
                    }
                    break;
                }
            }
        }
        for c in code.chars() {
            if c == '{' {
                depth += 1;
            } else if c == '}' {
                depth -= 1;
                if in_test_mod && depth <= test_depth {
                    in_test_mod = false;
                }
                if !cur_fn.is_empty() && depth <= depth_at_fn {
                    cur_fn.clear();
                }
            }
        }
    }
}

fn walk(root: &Path, rel: &str, files: &mut Vec<String>) {
    let Ok(rd) = std::fs::read_dir(root.join(rel)) else { return };
    let mut names: Vec<_> = rd.filter_map(|e| e.ok()).map(|e| e.file_name().to_string_lossy().into_owned()).collect();
    names.sort();
    for n in names {
        let r = format!("{rel}/{n}");
        if root.join(&r).is_dir() {
            walk(root, &r, files);
        } else if n.ends_with(".rs") {
            files.push(r);
        }
    }
}

/// Returns the list of unexpected effect sites (empty = the simulator owns everything it should).
pub fn scan_repo(root: &Path) -> Vec<String> {
    let mut files = vec![];
    walk(root, "cli/src", &mut files);
    walk(root, "core/src", &mut files);
    let mut out = vec![];
    for f in files {
        scan_file(root, &f, &mut out);
    }
    out
}
