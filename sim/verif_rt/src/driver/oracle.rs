//! Case generation and oracles for the four claimed properties. `evaluate` is a pure function of the
//! case (given the code under test): batch search, minimisation and replay all go through it.

use super::exec::{run_invocation, Outcome, ResultClass, Scratch};
use super::gen::{self, GenOpts, World, POISONS};
use super::model::*;
use super::stats::{tree_digest, Stats};
use crate::ctx::{Fault, IoKind, Knobs};
use crate::rng::Rng;
use crate::sched::SchedSpec;
use std::collections::BTreeMap;
use std::path::Path;

pub struct EvalResult {
    pub violations: Vec<Violation>,
    pub outcomes: Vec<Outcome>,
    pub stats: Stats,
    pub rejected: bool,
    /// the case actually executed (template ops such as `perm_all` expanded)
    pub expanded: Case,
    pub event_digest: u64,
}

#[derive(Clone, Copy, PartialEq, Eq, Debug)]
pub enum Tier {
    Quick,
    Thorough,
}

// ------------------------------------------------------------------------------------------------
// shared generators
// ------------------------------------------------------------------------------------------------

pub fn random_knobs(r: &mut Rng, allow_reorder: bool) -> Knobs {
    let workers = match r.below(100) {
        0..=29 => 2,
        30..=44 => 1,
        45..=74 => r.range(3, 4) as usize,
        _ => r.range(5, 16) as usize,
    };
    let capacity = match r.below(100) {
        0..=39 => 100,
        40..=54 => 0,
        55..=69 => 1,
        70..=84 => 2,
        _ => 3,
    };
    let delay_max = if r.chance(6, 10) { 0 } else { r.range(1, 6) as u32 };
    let reorder = if !allow_reorder {
        0
    } else {
        match r.below(100) {
            0..=59 => 0,
            60..=84 => r.range(2, 4) as u32,
            _ => u32::MAX,
        }
    };
    Knobs { workers, capacity, delay_max, reorder, perm: None }
}

pub fn random_sched(r: &mut Rng) -> SchedSpec {
    match r.below(100) {
        0..=49 => SchedSpec::Random { seed: r.next() },
        50..=79 => SchedSpec::Pct { seed: r.next(), depth: r.range(1, 3) as u32 },
        _ => SchedSpec::Sticky,
    }
}

fn lang_supports_consts(lang: &str) -> bool {
    matches!(lang, "typescript" | "go" | "python")
}

fn pick_lang_mode(r: &mut Rng) -> (String, Mode) {
    loop {
        let lang = r.pick(&LANGS).to_string();
        let mode = if r.chance(1, 2) { Mode::File } else { Mode::Folder };
        // Scala has no multi-file support at all (write_imports is unimplemented!()): that is a
        // configuration C07 reports; the other properties stay within supported configurations.
        if lang == "scala" && mode == Mode::Folder {
            continue;
        }
        return (lang, mode);
    }
}

fn base_inv(lang: &str, mode: Mode, config: String) -> Inv {
    Inv {
        version: 0,
        lang: lang.to_string(),
        mode,
        extra: vec![],
        config,
        knobs: Knobs { workers: 1, capacity: 100, delay_max: 0, reorder: 0, perm: None },
        hash_seed: 0,
        sched: SchedSpec::Sticky,
        faults: vec![],
        fresh_out: true,
        role: "ref".into(),
        src_age: 0,
        roots: vec![],
        out_sub: String::new(),
        obstacle: 0,
        wall_clock: 0,
    }
}

fn gen_opts_for(lang: &str, r: &mut Rng, tier: Tier) -> GenOpts {
    let mut o = GenOpts::default();
    o.consts = lang_supports_consts(lang);
    if tier == Tier::Quick {
        o.max_files = 8;
        o.max_items = 10;
    }
    o.max_crates = r.range(1, 4) as usize;
    // rarely a wide tree: more files than the channel holds at its shipped capacity
    match r.below(600) {
        0 | 1 => {
            o.max_files = 260;
            o.max_items = 180;
            o.max_crates = r.range(1, 3) as usize;
        }
        // and, more rarely, many hundreds of results (counters, batching thresholds)
        2 => {
            o.max_files = 900;
            o.max_items = 760;
            o.max_crates = r.range(1, 3) as usize;
        }
        _ => {}
    }
    o
}

// ------------------------------------------------------------------------------------------------
// C06
// ------------------------------------------------------------------------------------------------

pub fn gen_c06(r: &mut Rng, tier: Tier) -> Case {
    let (lang, mode) = pick_lang_mode(r);
    let mut o = gen_opts_for(&lang, r, tier);
    o.same_names = std::env::var_os("VERIF_PROBE_SAME_NAMES").is_some() && r.chance(1, 4);
    // the same type name in different crates is legitimate in multi-file mode (own file each)
    o.same_names_other_crate = mode == Mode::Folder && r.chance(1, 3);
    o.symlinks = r.chance(1, 8);
    o.reexports = mode == Mode::Folder && r.chance(1, 4);
    if o.symlinks {
        // the shared file's items exist twice: keep every name unique so that the two copies are
        // the only same-named items (identical text, hence no tie to break)
        o.same_names_other_crate = false;
        o.same_names = false;
    }
    let symlinks = o.symlinks;
    let world = gen::gen_world(r, &o);
    let tree0 = world.render();
    let mut mapped: Vec<String> = world.items.iter().filter(|i| i.annotated && i.kind != gen::Kind::Const).map(|i| i.name.clone()).collect();
    r.shuffle(&mut mapped);
    if !r.chance(1, 4) {
        mapped.clear();
    }
    let config = gen::default_config_with(r, &lang, false, &mapped);
    let mut versions = vec![tree0];
    // the CLI accepts several directories: sometimes hand it the crate directories one by one
    let roots: Vec<String> = match r.below(12) {
        0 | 1 => {
            let mut v: Vec<String> = world.crates.iter().map(|c| c.dir.clone()).collect();
            r.shuffle(&mut v);
            v
        }
        // overlapping roots: the files below the second root are delivered twice
        2 => vec![".".to_string(), world.crates[0].dir.clone()],
        _ => vec![],
    };
    let extra: Vec<String> = match r.below(12) {
        0 => vec!["--target-os".into(), "linux".into()],
        1 => vec!["--follow-links".into()],
        _ => vec![],
    };
    let mut ops = vec![base_inv(&lang, mode.clone(), config.clone())];
    ops[0].roots = roots.clone();
    ops[0].extra = extra.clone();
    let k = if tier == Tier::Quick { 8 } else { 32 };
    let mut split_version = None;
    for _ in 0..k {
        let mut inv = base_inv(&lang, mode.clone(), config.clone());
        inv.role = "var".into();
        inv.roots = roots.clone();
        inv.extra = extra.clone();
        match r.below(8) {
            0 => inv.sched = random_sched(r),
            1 => {
                inv.knobs.workers = r.range(2, 16) as usize;
                inv.sched = random_sched(r);
            }
            2 => {
                let k = random_knobs(r, true);
                inv.knobs = Knobs { workers: 2, ..k };
                inv.sched = random_sched(r);
            }
            3 => inv.hash_seed = r.next(),
            6 => {
                // another day, another wall-clock time
                inv.wall_clock = 1_700_000_000 + r.below(400) as i64 * 86_400 + r.below(86_400) as i64;
                inv.role = "clock".into();
            }
            5 if roots.is_empty()
                && !world.noise
                && world.crates.len() > 1
                && !world.crates.iter().any(|a| world.crates.iter().any(|b| a.dir != b.dir && b.dir.starts_with(&format!("{}/", a.dir)))) =>
            {
                // the same files handed over as one root per crate directory instead of one
                // root for the whole workspace
                let mut v: Vec<String> = world.crates.iter().map(|c| c.dir.clone()).collect();
                r.shuffle(&mut v);
                inv.roots = v;
                inv.role = "roots".into();
            }
            4 if mode == Mode::File && roots.is_empty() && !symlinks => {
                // same items, different split over files and directories
                if split_version.is_none() || r.chance(1, 3) {
                    versions.push(world.resplit(r).render());
                    split_version = Some(versions.len() - 1);
                }
                inv.version = split_version.unwrap();
                inv.role = "split".into();
                if r.chance(1, 2) {
                    inv.knobs = random_knobs(r, true);
                    inv.sched = random_sched(r);
                    inv.hash_seed = r.next();
                }
            }
            _ => {
                inv.knobs = random_knobs(r, true);
                inv.sched = random_sched(r);
                inv.hash_seed = r.next();
            }
        }
        ops.push(inv);
    }
    // exhaustive arrival permutations for small trees (template op, expanded at evaluation time)
    let perm_limit = if tier == Tier::Quick { 4 } else { 6 };
    if r.chance(1, if tier == Tier::Quick { 12 } else { 20 }) {
        let mut inv = base_inv(&lang, mode.clone(), config.clone());
        inv.roots = roots.clone();
        inv.extra = extra.clone();
        inv.role = format!("perm_all:{perm_limit}");
        inv.knobs.reorder = u32::MAX;
        inv.knobs.workers = 2;
        ops.push(inv);
    }
    Case { property: "C06".into(), versions, ops, notes: vec![], preseed: vec![] }
}

fn c06_class(reference: &Inv, inv: &Inv) -> (String, Vec<&'static str>) {
    let mut dims = vec![];
    if inv.version != reference.version {
        dims.push("SPLIT");
    }
    if inv.roots != reference.roots {
        dims.push("ROOTS");
    }
    if inv.wall_clock != reference.wall_clock {
        dims.push("CLOCK");
    }
    if inv.hash_seed != reference.hash_seed {
        dims.push("HASHSEED");
    }
    if inv.knobs.workers != reference.knobs.workers {
        dims.push("WORKERS");
    }
    if inv.knobs.capacity != reference.knobs.capacity
        || inv.knobs.delay_max != reference.knobs.delay_max
        || inv.knobs.reorder != reference.knobs.reorder
        || inv.knobs.perm != reference.knobs.perm
    {
        dims.push("ARRIVAL");
    }
    if inv.sched != reference.sched {
        dims.push("SCHEDULE");
    }
    let class = match dims.len() {
        0 => "DIFF_UNEXPLAINED".to_string(),
        1 => format!("DIFF_BY_{}", dims[0]),
        _ => "DIFF_MULTI".to_string(),
    };
    (class, dims)
}

fn first_diff(a: &BTreeMap<String, Vec<u8>>, b: &BTreeMap<String, Vec<u8>>) -> (String, String) {
    for (k, va) in a {
        match b.get(k) {
            None => return (k.clone(), format!("file {k} missing in the varied run")),
            Some(vb) if va != vb => {
                let sa = String::from_utf8_lossy(va);
                let sb = String::from_utf8_lossy(vb);
                let la: Vec<&str> = sa.lines().collect();
                let lb: Vec<&str> = sb.lines().collect();
                let mut i = 0;
                while i < la.len() && i < lb.len() && la[i] == lb[i] {
                    i += 1;
                }
                let ctx = |l: &Vec<&str>| l.iter().skip(i).take(3).cloned().collect::<Vec<_>>().join(" | ");
                return (k.clone(), format!("file {k} differs from line {}: reference `{}` vs varied `{}`", i + 1, ctx(&la), ctx(&lb)));
            }
            _ => {}
        }
    }
    for k in b.keys() {
        if !a.contains_key(k) {
            return (k.clone(), format!("extra file {k} in the varied run"));
        }
    }
    (String::new(), String::new())
}

fn factorial(n: usize) -> u64 {
    (1..=n as u64).product()
}

fn eval_c06(case: &Case, sc: &mut Scratch, res: &mut EvalResult) {
    let out = sc.out();
    let Some(reference) = case.ops.first() else { return };
    let tree = &case.versions[reference.version.min(case.versions.len() - 1)];
    let td = tree_digest(tree);
    let r0 = run_invocation(sc, tree, reference, &out);
    res.stats.record(td, tree.len(), reference, &r0, 1, true);
    if r0.class != ResultClass::Ok {
        // C06 scenarios are error-free by construction; a failing reference run is a generator
        // reject (what the tool does on errors is C07's and C08's business).
        res.rejected = true;
        res.outcomes.push(r0);
        res.expanded.ops.truncate(1);
        return;
    }
    let ref_bytes = r0.out_bytes();
    let k_msgs = r0.arrival.len();
    res.outcomes.push(r0);
    let mut expanded_ops = vec![reference.clone()];
    let mut todo: Vec<Inv> = vec![];
    for inv in case.ops.iter().skip(1) {
        if let Some(lim) = inv.role.strip_prefix("perm_all:") {
            let lim: usize = lim.parse().unwrap_or(4);
            if k_msgs >= 2 && k_msgs <= lim {
                res.stats.exhaustive_perm_cases += 1;
                for p in 0..factorial(k_msgs) {
                    let mut e = inv.clone();
                    e.role = "perm".into();
                    e.knobs.perm = Some(p);
                    todo.push(e);
                }
            }
        } else {
            todo.push(inv.clone());
        }
    }
    for inv in todo {
        let tree = &case.versions[inv.version.min(case.versions.len() - 1)];
        let o = run_invocation(sc, tree, &inv, &out);
        res.stats.record(tree_digest(tree), tree.len(), &inv, &o, 1, false);
        res.stats.check("c06_compare");
        let idx = expanded_ops.len();
        let (class, dims) = c06_class(reference, &inv);
        if o.class != ResultClass::Ok {
            res.violations.push(Violation {
                property: "C06".into(),
                class: "STATUS_DIFFERS".into(),
                detail: format!("{}/{:?}/{:?}", inv.lang, inv.mode, o.class),
                message: format!(
                    "reference run succeeded but the varied run ({}) ended as {:?}: {} {}",
                    dims.join("+"),
                    o.class,
                    o.err_text,
                    o.panic_site()
                ),
                op_index: idx,
            });
        } else {
            let ob = o.out_bytes();
            if ob != ref_bytes {
                let (file, msg) = first_diff(&ref_bytes, &ob);
                let ext = Path::new(&file).extension().map(|e| e.to_string_lossy().into_owned()).unwrap_or_default();
                let dup = if case.versions.iter().any(|t| has_duplicate_names(t, &inv.mode)) { "|dup_names" } else { "" };
                res.violations.push(Violation {
                    property: "C06".into(),
                    class,
                    detail: format!("{}/{:?}/.{}{dup}", inv.lang, inv.mode, ext),
                    message: format!("output differs from the reference run when varying {}: {}", dims.join("+"), msg),
                    op_index: idx,
                });
            }
        }
        expanded_ops.push(inv);
        res.outcomes.push(o);
    }
    res.expanded.ops = expanded_ops;
}

// ------------------------------------------------------------------------------------------------
// C07
// ------------------------------------------------------------------------------------------------

fn plant_chunk(r: &mut Rng, tree: &mut Tree, world: &World, chunk: &str, new_file_name: &str, prefer_existing: bool) -> String {
    let annotated: Vec<usize> =
        tree.iter().enumerate().filter(|(_, f)| f.is_annotated() && f.path.ends_with(".rs") && f.path.contains("/src/") && !f.path.contains("ignored_dir") && !f.path.contains("/.") && !f.path.contains("tools/typeshare")).map(|(i, _)| i).collect();
    if prefer_existing && !annotated.is_empty() && r.chance(2, 3) {
        let i = *r.pick(&annotated);
        let pos = r.range(1, tree[i].chunks.len() as u64) as usize;
        tree[i].chunks.insert(pos, chunk.to_string());
        tree[i].path.clone()
    } else {
        let c = r.pick(&world.crates);
        let path = format!("{}/src/{}", c.dir, new_file_name);
        tree.push(SrcFile::text(&path, vec!["use typeshare::typeshare;\n".into(), chunk.to_string()]));
        tree.sort_by(|a, b| a.path.cmp(&b.path));
        path
    }
}

pub fn gen_c07(r: &mut Rng, tier: Tier) -> Case {
    let lang = r.pick(&LANGS).to_string();
    let mut o = gen_opts_for(&lang, r, tier);
    // consts with back ends that have no const support are one of the named edge inputs
    o.consts = lang_supports_consts(&lang) || r.chance(1, 10);
    o.same_names = r.chance(1, 10);
    o.symlinks = r.chance(1, 6);
    let world = gen::gen_world(r, &o);
    let mut tree = world.render();
    let mut notes = vec![];
    let nedges = match r.below(10) {
        0..=3 => 0,
        4..=8 => 1,
        _ => 2,
    };
    for e in 0..nedges {
        let edges = gen::all_edges();
        let edge = &edges[r.below(edges.len() as u64) as usize];
        match edge.kind {
            FileKind::Text => {
                let path = if edge.raw_hex.is_empty() && edge.id != "unparsable" {
                    plant_chunk(r, &mut tree, &world, edge.chunk, &format!("edge_{e}.rs"), true)
                } else {
                    // whole-file edges (unparsable text, invalid UTF-8) get their own file
                    let c = r.pick(&world.crates);
                    let path = format!("{}/src/edge_{e}.rs", c.dir);
                    tree.push(SrcFile { path: path.clone(), kind: FileKind::Text, chunks: vec![edge.chunk.to_string()], raw_hex: edge.raw_hex.to_string() });
                    tree.sort_by(|a, b| a.path.cmp(&b.path));
                    path
                };
                notes.push(format!("edge:{}:{}:{}", edge.id, path, if edge.must_fail { "must_fail" } else { "any" }));
            }
            _ => {
                let c = r.pick(&world.crates);
                let path = format!("{}/src/edge_{e}_{}.rs", c.dir, edge.id);
                tree.push(SrcFile { path: path.clone(), kind: edge.kind.clone(), chunks: vec![], raw_hex: String::new() });
                tree.sort_by(|a, b| a.path.cmp(&b.path));
                notes.push(format!("edge:{}:{}:any", edge.id, path));
            }
        }
    }
    // now and then failing files come in bulk (more than any internal window, queue or batch size
    // is likely to be): unreadable, not UTF-8, or not Rust
    if r.chance(1, 60) {
        let n = *r.pick(&[70usize, 140, 300]);
        let dir = r.pick(&world.crates).dir.clone();
        let kind = r.below(3);
        for i in 0..n {
            let path = format!("{dir}/src/mass/m_{i}.rs");
            notes.push(format!("edge:mass_{kind}:{path}:any"));
            tree.push(match kind {
                0 => SrcFile { path, kind: FileKind::DanglingSymlink, chunks: vec![], raw_hex: String::new() },
                1 => SrcFile { path, kind: FileKind::Text, chunks: vec![], raw_hex: "fffe00".into() },
                _ => SrcFile::text(&path, vec!["use typeshare::typeshare;\n".into(), format!("#[typeshare]\npub struct Broken{i} {{\n    pub a: u32,\n")]),
            });
        }
        tree.sort_by(|a, b| a.path.cmp(&b.path));
    }
    // a file name that is not valid UTF-8 (Latin-1 e-acute), sometimes
    if r.chance(1, 10) {
        let idx: Vec<usize> = tree.iter().enumerate().filter(|(_, f)| f.kind == FileKind::Text && f.path.ends_with(".rs") && f.path.contains("/src/")).map(|(i, _)| i).collect();
        if !idx.is_empty() {
            let i = *r.pick(&idx);
            let old = tree[i].path.clone();
            let new = format!("{}/caf%E9 au lait.rs", old.rsplit_once('/').map(|x| x.0).unwrap_or(""));
            if !tree.iter().any(|f| f.path == new) {
                for n in notes.iter_mut() {
                    *n = n.replace(&old, &new);
                }
                tree[i].path = new;
                tree.sort_by(|a, b| a.path.cmp(&b.path));
            }
        }
    }
    let nops = r.range(1, 3) as usize;
    let mut ops = vec![];
    for _ in 0..nops {
        let lang = if r.chance(2, 3) { lang.clone() } else { r.pick(&LANGS).to_string() };
        let mode = if r.chance(1, 2) { Mode::File } else { Mode::Folder };
        let omit = r.chance(1, 25);
        let mut config = gen::default_config(r, &lang, omit);
        if r.chance(1, 15) {
            // one of the named configuration edge cases
            config = r.pick(gen::CONFIG_EDGES).1.to_string();
        }
        let mut inv = base_inv(&lang, mode, config);
        inv.role = "run".into();
        inv.knobs = random_knobs(r, false);
        inv.sched = random_sched(r);
        inv.hash_seed = r.next();
        if r.chance(1, 10) {
            inv.extra = vec!["--target-os".into(), "linux".into()];
        }
        let has_loop = tree.iter().any(|f| f.kind == FileKind::SymlinkLoop || f.kind == FileKind::SymlinkToFile);
        if r.chance(1, 12) || (has_loop && r.chance(1, 2)) {
            inv.extra.push("--follow-links".into());
        }
        if r.chance(1, 30) {
            inv.obstacle = 1;
        }
        match r.below(16) {
            0 => {
                let mut v: Vec<String> = world.crates.iter().map(|c| c.dir.clone()).collect();
                r.shuffle(&mut v);
                inv.roots = v;
            }
            1 => inv.roots = vec![world.crates[0].dir.clone(), "no/such/dir".to_string()],
            2 => inv.roots = vec![".".to_string(), world.crates[0].dir.clone()],
            3 => inv.roots = vec![tree[0].path.clone()],
            _ => {}
        }
        // faults
        let nf = match r.below(10) {
            0..=4 => 0,
            5..=7 => 1,
            8 => 2,
            _ => 3,
        };
        for _ in 0..nf {
            let texts: Vec<&SrcFile> = tree.iter().filter(|f| f.kind == FileKind::Text && f.path.ends_with(".rs")).collect();
            let f = match r.below(10) {
                0..=3 if !texts.is_empty() => Fault::Read {
                    path: format!("ws/{}", super::exec::decode_path(&r.pick(&texts).path).to_string_lossy()),
                    kind: r.pick(&[IoKind::Eacces, IoKind::Eio, IoKind::Enoent]).clone(),
                },
                4 if !texts.is_empty() => Fault::SlowRead { path: format!("ws/{}", super::exec::decode_path(&r.pick(&texts).path).to_string_lossy()), yields: r.range(1, 40) as u32 },
                5 => {
                    let f = r.pick(&tree);
                    let dir = Path::new(&f.path).parent().map(|p| p.to_string_lossy().into_owned()).unwrap_or_default();
                    Fault::Readdir { path: if dir.is_empty() { "ws".into() } else { format!("ws/{dir}") }, kind: r.pick(&[IoKind::Eacces, IoKind::Eio]).clone() }
                }
                6 => Fault::Write { nth: r.below(3) as u32, kind: r.pick(&[IoKind::Enospc, IoKind::Eio, IoKind::Eacces]).clone() },
                7 => {
                    if r.chance(1, 2) {
                        Fault::OutRead { nth: r.below(3) as u32, kind: r.pick(&[IoKind::Eacces, IoKind::Eio]).clone() }
                    } else {
                        Fault::Write { nth: r.below(3) as u32, kind: r.pick(&[IoKind::Enospc, IoKind::Eio, IoKind::Eacces]).clone() }
                    }
                }
                8 => Fault::ShortWrite { nth: r.below(3) as u32, keep_permille: r.below(1000) as u32, kind: r.pick(&[IoKind::Enospc, IoKind::Eio]).clone() },
                _ => Fault::Crash { at: r.below(6) as u32, keep_permille: r.below(1000) as u32 },
            };
            inv.faults.push(f);
        }
        ops.push(inv);
    }
    // sometimes a follow-up run into the same, already populated output location, with something
    // going wrong only there (an obstacle in place of one of the files, a write fault)
    if r.chance(1, 8) {
        if let Some(first) = ops.first().cloned() {
            let mut again = first;
            again.fresh_out = false;
            again.role = "followup".into();
            again.faults.clear();
            again.knobs = random_knobs(r, false);
            again.sched = random_sched(r);
            again.hash_seed = r.next();
            match r.below(3) {
                0 => again.obstacle = 2 + r.below(6) as u8,
                1 => again.faults.push(Fault::Write { nth: r.below(3) as u32, kind: IoKind::Eio }),
                _ => {}
            }
            ops.truncate(1);
            ops[0].faults.clear();
            ops[0].obstacle = 0;
            ops.push(again);
        }
    }
    Case { property: "C07".into(), versions: vec![tree], ops, notes, preseed: vec![] }
}

fn norm_panic_message(m: &str) -> String {
    // keep the message recognisable but free of input-specific fragments (identifiers, numbers)
    let mut s: String = m.lines().next().unwrap_or("").to_string();
    for cut in [" of `", " inside '", ": \"", " \""] {
        if let Some(i) = s.find(cut) {
            s.truncate(i);
        }
    }
    let s: String = s.chars().map(|c| if c.is_ascii_digit() { '#' } else { c }).take(80).collect();
    s.trim().replace(' ', "_")
}

fn eval_c07(case: &Case, sc: &mut Scratch, res: &mut EvalResult) {
    let out = sc.out();
    let tree = &case.versions[0];
    let td = tree_digest(tree);
    // culprit candidates from the generator's notes
    let mut must_fail_paths: Vec<String> = vec![];
    let mut edge_paths: Vec<String> = vec![];
    for n in &case.notes {
        let parts: Vec<&str> = n.split(':').collect();
        if parts.len() >= 4 && parts[0] == "edge" {
            edge_paths.push(parts[2].to_string());
            if parts[3] == "must_fail" {
                must_fail_paths.push(parts[2].to_string());
            }
        }
    }
    let lossy = |p: &str| super::exec::decode_path(p).to_string_lossy().into_owned();
    let annotated: std::collections::BTreeSet<String> = tree.iter().filter(|f| f.is_annotated()).map(|f| format!("ws/{}", lossy(&f.path))).collect();
    for (idx, inv) in case.ops.iter().enumerate() {
        let mut blocked_file: Option<String> = None;
        if inv.obstacle >= 2 && !inv.fresh_out {
            // something sits where one of the existing output files has to be rewritten: replace
            // the n-th file by a directory and change the sources' output for it (by emptying the
            // file first, so that the tool has to write it again)
            let snap = super::exec::snapshot(&out);
            let files: Vec<&String> = snap.keys().filter(|k| !k.ends_with('/') && !k.is_empty()).collect();
            if !files.is_empty() {
                let f = files[(inv.obstacle as usize - 2) % files.len()].clone();
                let p = out.join(&f);
                let _ = std::fs::remove_file(&p);
                let _ = std::fs::create_dir_all(&p);
                blocked_file = Some(f);
            }
        }
        let o = run_invocation(sc, tree, inv, &out);
        res.stats.record(td, tree.len(), inv, &o, 1, false);
        let mut push = |class: &str, detail: String, message: String| {
            res.violations.push(Violation { property: "C07".into(), class: class.into(), detail, message, op_index: idx });
        };
        let ctxs = format!("{}/{:?}", inv.lang, inv.mode);
        res.stats.check("c07_terminates");
        match o.class {
            ResultClass::Panic => {
                let site = o.panic_site();
                let file = site.rsplit_once(':').map(|x| x.0.to_string()).unwrap_or(site.clone());
                let msg = o.panics.first().map(|p| p.message.clone()).unwrap_or(o.panic_message.clone());
                push("PANIC", format!("{file}|{}", norm_panic_message(&msg)), format!("panic at {site}: {msg} [{ctxs}]"));
            }
            ResultClass::Deadlock => push("DEADLOCK", ctxs.clone(), format!("all simulated threads blocked: {}", o.panic_message)),
            ResultClass::NoProgress if o.panic_message.starts_with("uncontrolled_spin") => push(
                "NO_PROGRESS",
                format!("{ctxs}|uncontrolled_spin"),
                format!("invocation spins on the CPU inside the code under test ({})", o.panic_message),
            ),
            ResultClass::NoProgress => push(
                "NO_PROGRESS",
                ctxs.clone(),
                format!("invocation did not finish within its step budget ({} adversarial steps, then fair round-robin: {} steps or {} per source file)", crate::sched::N_ADV, crate::sched::N_FAIR, crate::sched::FAIR_PER_FILE),
            ),
            ResultClass::Crashed => {}
            ResultClass::Ok => {
                res.stats.check("c07_ok_complete");
                // a fired read / readdir fault on an annotated file, or an input that cannot be
                // understood, must not end in "success"
                let mut silently = vec![];
                for op in &o.oplog {
                    if op.fault.is_some() && op.op == "read_src" && annotated.contains(&op.path) {
                        silently.push(format!("{} ({})", op.path, op.fault.clone().unwrap()));
                    }
                    if op.fault.is_some() && op.op == "readdir" && annotated.iter().any(|a| a.starts_with(&format!("{}/", op.path))) {
                        silently.push(format!("{} ({})", op.path, op.fault.clone().unwrap()));
                    }
                    if op.fault.is_some() && op.is_mutating() && op.fault.as_deref() != Some("crash") {
                        silently.push(format!("{} ({})", op.path, op.fault.clone().unwrap()));
                    }
                }
                // a root directory that does not exist cannot have been processed
                for root in &inv.roots {
                    let rp = root.trim_start_matches("./").trim_end_matches('/');
                    let exists = rp.is_empty() || rp == "." || tree.iter().any(|f| f.path == rp || f.path.starts_with(&format!("{rp}/")));
                    if !exists {
                        silently.push(format!("ws/{rp} (missing_root)"));
                    }
                }
                // is a tree path below one of the directories handed to the CLI, and not excluded by
                // the walker's documented rules (hidden files, ignore files, tools/typeshare)?
                let follows = inv.extra.iter().any(|e| e == "--follow-links");
                let visible = |p: &str| -> bool {
                    let under_root = inv.roots.is_empty()
                        || inv.roots.iter().any(|r| {
                            let r = r.trim_start_matches("./").trim_end_matches('/');
                            r.is_empty() || r == "." || p == r || p.starts_with(&format!("{r}/"))
                        });
                    under_root
                        && p.ends_with(".rs")
                        && p.contains("/src/")
                        && !p.contains("ignored_dir/")
                        && !p.contains("/.")
                        && !p.contains("tools/typeshare/")
                        && !(follows && tree.iter().any(|f| f.kind == FileKind::SymlinkLoop))
                };
                for p in &must_fail_paths {
                    if visible(p) {
                        silently.push(format!("ws/{} (unparsable annotated input)", lossy(p)));
                    }
                }
                // success means every visible source file with annotated items went through the
                // parser: nothing was dropped on the way (a root, a sub-tree, a file)
                res.stats.check("c07_all_sources_read");
                for f in tree.iter().filter(|f| f.is_annotated() && visible(&f.path)) {
                    let lp = format!("ws/{}", lossy(&f.path));
                    if !o.oplog.iter().any(|op| op.op == "read_src" && op.path == lp) {
                        silently.push(format!("{lp} (file_not_read)"));
                        break;
                    }
                }
                if let Some(b) = &blocked_file {
                    silently.push(format!("out/{b} (blocked_by_directory)"));
                }
                if !silently.is_empty() {
                    push(
                        "OK_BUT_INCOMPLETE",
                        format!("{ctxs}|{}", silently[0].rsplit_once('(').map(|x| x.1.trim_end_matches(')')).unwrap_or("")),
                        format!("run reported success although {} failed", silently.join(", ")),
                    );
                }
                if inv.mode == Mode::File && !o.after.contains_key(&inv.out_name()) {
                    push("OK_WITHOUT_OUTPUT", ctxs.clone(), format!("run reported success but {} does not exist", inv.out_name()));
                }
            }
            ResultClass::Err => {
                res.stats.check("c07_err_diagnostic");
                let all = format!("{}\n{}", o.errors().join("\n"), o.err_text);
                if o.errors().is_empty() && o.err_text.trim().is_empty() {
                    push("ERR_WITHOUT_DIAGNOSTIC", ctxs.clone(), "run failed without any diagnostic".into());
                }
                // culprit naming: when the failure is a read / parse failure, the diagnostic has to
                // name one of the files that actually has a problem
                let read_culprits: Vec<String> = o
                    .oplog
                    .iter()
                    .filter(|op| op.fault.is_some() && (op.op == "read_src" || op.op == "readdir"))
                    .map(|op| op.path.clone())
                    .collect();
                let parse_related = all.contains("Parsing failed") || all.contains("Failed traversing") || all.contains("Parsing error") || all.contains("Errors encountered during parsing");
                // (a failure right after an injected read / readdir fault is a read failure whatever
                // its wording)
                if parse_related || !read_culprits.is_empty() {
                    let mut candidates: Vec<String> = read_culprits.clone();
                    // (a path may show up lossily or Debug-escaped when it is not valid UTF-8)
                    let read_forms: Vec<String> = tree
                        .iter()
                        .filter(|f| read_culprits.contains(&format!("ws/{}", lossy(&f.path))))
                        .flat_map(|f| super::exec::path_forms(&f.path))
                        .map(|p| format!("ws/{p}"))
                        .collect();
                    candidates.extend(read_forms);
                    candidates.extend(edge_paths.iter().flat_map(|p| super::exec::path_forms(p)).map(|p| format!("ws/{p}")));
                    candidates.extend(tree.iter().filter(|f| f.kind != FileKind::Text).flat_map(|f| super::exec::path_forms(&f.path)).map(|p| format!("ws/{p}")));
                    // a root directory that does not exist (or is a file) is an offending path, too
                    candidates.extend(inv.roots.iter().map(|r| format!("ws/{}", r.trim_start_matches("./"))));
                    if !candidates.is_empty() && !candidates.iter().any(|c| all.contains(c.as_str())) {
                        push(
                            "DIAGNOSTIC_OMITS_FILE",
                            ctxs.clone(),
                            format!("failure diagnostic names none of the offending files {:?}: {}", candidates, all.replace('\n', " / ")),
                        );
                    }
                }
            }
        }
        res.outcomes.push(o);
    }
}

// ------------------------------------------------------------------------------------------------
// C08
// ------------------------------------------------------------------------------------------------

/// Leftovers in the output location before the first run: files with the names the run will write
/// (or Swift's helper file), holding something else.
fn gen_preseed(r: &mut Rng, lang: &str, mode: &Mode, world: &World) -> Vec<(String, String)> {
    let mut v = vec![];
    if !r.chance(1, 3) {
        // the output location prepared by a build step: it exists and is empty (a name ending in
        // '/' stands for a directory), sometimes with an empty sub-directory of someone else's
        if r.chance(1, 4) {
            v.push(("./".to_string(), String::new()));
            if r.chance(1, 3) {
                v.push(("kept-for-later/".to_string(), String::new()));
            }
        }
        return v;
    }
    let contents = [
        "",
        "leftover from another tool\n",
        "// stale\npublic struct CodableVoid: Codable, Equatable {}\n",
        // not valid UTF-8 (a file cut in the middle of a multi-byte character, another encoding)
        "hex:2f 2f 20 63 61 66 c3 0a ff fe 0a",
    ];
    let ext = lang_ext(lang);
    match mode {
        Mode::File => {
            if r.chance(1, 2) {
                v.push((format!("types.{ext}"), r.pick(&contents).to_string()));
            } else {
                // the directory is there, the output file is not
                v.push(("unrelated.txt".to_string(), "not ours\n".to_string()));
            }
        }
        Mode::Folder => {
            for c in &world.crates {
                if r.chance(1, 2) {
                    let cn = gen::crate_name_of(&c.dir);
                    let name = if lang == "swift" { pascal(&cn) } else { cn };
                    v.push((format!("{name}.{ext}"), r.pick(&contents).to_string()));
                }
            }
            if lang == "swift" && r.chance(1, 2) {
                v.push(("Codable.swift".to_string(), r.pick(&contents).to_string()));
            }
            if r.chance(1, 3) {
                v.push((format!("unrelated_{}.{ext}", r.below(10)), "not ours\n".to_string()));
            }
            if r.chance(1, 12) {
                // somebody else's large file in the same folder, sorting before every module
                // (larger than the read-ahead, cache or batch budgets a tool is likely to have)
                v.push(("0_assets.bin".to_string(), format!("fill:{}", r.pick(&[70u32, 1100, 5000, 9000]))));
            }
        }
    }
    v
}

fn pascal(s: &str) -> String {
    let mut out = String::new();
    let mut up = true;
    for c in s.chars() {
        if c == '_' {
            up = true;
        } else if up {
            out.push(c.to_ascii_uppercase());
            up = false;
        } else {
            out.push(c);
        }
    }
    out
}

fn apply_preseed(case: &Case, out: &Path) {
    if case.preseed.is_empty() {
        return;
    }
    let _ = std::fs::create_dir_all(out);
    for (name, content) in &case.preseed {
        let p = out.join(name);
        if name.ends_with('/') {
            let _ = std::fs::create_dir_all(&p);
            continue;
        }
        if let Some(parent) = p.parent() {
            let _ = std::fs::create_dir_all(parent);
        }
        if let Some(kib) = content.strip_prefix("fill:").and_then(|k| k.parse::<usize>().ok()) {
            let _ = std::fs::write(p, vec![b'.'; kib * 1024]);
        } else if let Some(hex) = content.strip_prefix("hex:") {
            let bytes: Vec<u8> = hex.split_whitespace().filter_map(|h| u8::from_str_radix(h, 16).ok()).collect();
            let _ = std::fs::write(p, bytes);
        } else {
            let _ = std::fs::write(p, content);
        }
    }
}

pub fn gen_c08(r: &mut Rng, tier: Tier) -> Case {
    let (lang, mode) = pick_lang_mode(r);
    let mut o = gen_opts_for(&lang, r, tier);
    o.glob_named = false;
    o.cfg_twins = false;
    if o.max_files > 300 {
        o.max_files = 260;
        o.max_items = 180;
    }
    let mut world = gen::gen_world(r, &o);
    // sometimes the construct is the only annotated item of the whole workspace (multi-file mode:
    // a workspace without annotated items is a valid, empty run)
    if mode == Mode::Folder && r.chance(1, 12) {
        for it in world.items.iter_mut() {
            it.annotated = false;
        }
    }
    let good = world.render();
    // half of the cases take a construct from the fixed catalogue, half generate one at a nested
    // position (container chains up to depth 5, seven item positions)
    let p: gen::GenPoison = if r.chance(1, 2) {
        let c = &POISONS[r.below(POISONS.len() as u64) as usize];
        gen::GenPoison { id: c.id.to_string(), poison: c.poison.to_string(), skipped: c.skipped.map(|s| s.to_string()) }
    } else {
        gen::gen_nested_poison(r)
    };
    // the construct may sit in a nested module, next to valid items, or alone in its file
    // nesting: modules, or (chosen once per case) a function body / a const block
    let wrap_kind = r.below(8);
    let wrap = |text: &str, depth: u64| -> String {
        let mut t = text.to_string();
        for d in 0..depth {
            let body: String = t.lines().map(|l| format!("    {l}\n")).collect();
            t = match wrap_kind {
                0 => format!("pub fn scope_{d}() {{\n{body}}}\n"),
                1 => format!("const _: () = {{\n{body}}};\n"),
                2 => format!("pub struct Holder{d};\nimpl Holder{d} {{\n    pub fn method(&self) {{\n{body}    }}\n}}\n"),
                _ => format!("pub mod nested{d} {{\n    use super::*;\n{body}}}\n"),
            };
        }
        t
    };
    let depth = if r.chance(1, 4) { r.range(1, 2) } else { 0 };
    // sometimes the file with the construct also repeats a valid item that another file already
    // defines (the android.rs / ios.rs pattern: one type defined per platform)
    let companion: String = if r.chance(1, 6) {
        let cands: Vec<&String> = good
            .iter()
            .filter(|f| f.kind == FileKind::Text && f.path.ends_with(".rs") && f.path.contains("/src/"))
            .flat_map(|f| f.chunks.iter())
            .filter(|c| c.contains("#[typeshare]") && !c.contains("pub const") && !c.contains("pub mod"))
            .collect();
        if cands.is_empty() { String::new() } else { (*r.pick(&cands)).clone() }
    } else {
        String::new()
    };
    let with_companion = |t: String| if companion.is_empty() { t } else { format!("{companion}{t}") };
    // now and then the construct comes in bulk (more rejected items than any internal limit, window
    // or batch size is likely to be)
    let mass: usize = if r.chance(1, 60) { *r.pick(&[70usize, 300]) } else { 1 };
    let mult = |t: &str| -> String {
        if mass == 1 || !(t.contains("Pz") || t.contains("PZ")) {
            t.to_string()
        } else {
            (0..mass).map(|i| t.replace("Pz", &format!("Pz{i}q")).replace("PZ", &format!("PZ{i}Q"))).collect()
        }
    };
    // the attribute in its qualified spelling, now and then
    let qualify = r.chance(1, 8);
    let spelled = |t: &str| -> String { if qualify { t.replacen("#[typeshare]", "#[typeshare::typeshare]", 1) } else { t.to_string() } };
    let poison_text = with_companion(wrap(&mult(&spelled(&p.poison)), depth));
    // the skip marker in one of its equivalent spellings
    let spell = |r: &mut Rng, s: &str| -> String {
        let alts = [
            "#[serde(skip)]",
            "#[typeshare(skip)]",
            "#[serde(default, skip)]",
            "#[serde(rename = \"bigOne\", skip)]",
            "#[serde(skip, rename = \"bigOne\")]",
            "#[serde(default = \"mk_default\", skip)]",
            "#[typeshare(typescript(readonly), skip)]",
            "#[serde(skip)] #[serde(default)]",
            "#[serde(default)] #[typeshare(skip)]",
        ];
        let a = r.pick(&alts).to_string();
        if s.contains("#[serde(skip)]") {
            s.replacen("#[serde(skip)]", &a, 1)
        } else {
            s.replacen("#[typeshare(skip)]", &a, 1)
        }
    };
    let skipped_text = p.skipped.as_deref().map(|s| with_companion(wrap(&mult(&spelled(&spell(r, s))), depth)));
    let mut poisoned = good.clone();
    // same planting position for the poisoned and the skipped variant
    let mut r2 = r.clone();
    let ppath = plant_chunk(r, &mut poisoned, &world, &poison_text, "pz.rs", true);
    let mut notes = vec![format!("poison:{}:{}", p.id, ppath)];
    // now and then the same construct sits in many files at once (every one of them is an
    // offending source file the diagnostics have to name)
    let many_files: usize = if mass == 1 && (p.poison.contains("Pz") || p.poison.contains("PZ")) && r.chance(1, 40) { *r.pick(&[7usize, 12]) } else { 0 };
    let mass_dir = r.pick(&world.crates).dir.clone();
    let file_copy = |t: &str, i: usize| t.replace("Pz", &format!("Pz{i}f")).replace("PZ", &format!("PZ{i}F"));
    for i in 0..many_files {
        let path = format!("{mass_dir}/src/pzmass/pz_{i}.rs");
        poisoned.push(SrcFile::text(&path, vec!["use typeshare::typeshare;\n".into(), file_copy(&spelled(&p.poison), i)]));
        notes.push(format!("poison:{}:{}", p.id, path));
    }
    poisoned.sort_by(|a, b| a.path.cmp(&b.path));
    let mut versions = vec![good, poisoned];
    let mut has_skipped = false;
    if let Some(sk) = skipped_text.as_deref() {
        let mut skipped = versions[0].clone();
        let spath = plant_chunk(&mut r2, &mut skipped, &world, sk, "pz.rs", true);
        debug_assert_eq!(spath, ppath);
        if let Some(raw) = p.skipped.as_deref() {
            for i in 0..many_files {
                let path = format!("{mass_dir}/src/pzmass/pz_{i}.rs");
                skipped.push(SrcFile::text(&path, vec!["use typeshare::typeshare;\n".into(), file_copy(&spelled(raw), i)]));
            }
            skipped.sort_by(|a, b| a.path.cmp(&b.path));
        }
        versions.push(skipped);
        has_skipped = true;
        notes.push(format!("skipped:{}:{}", p.id, spath));
    }
    let config = gen::default_config(r, &lang, false);
    let shapes: &[&[&str]] = &[
        &["good", "poisoned"],
        &["good", "poisoned", "skipped"],
        &["poisoned"],
        &["good", "poisoned", "good"],
        &["skipped", "poisoned", "skipped"],
        &["good", "poisoned", "poisoned", "skipped"],
        &["poisoned", "good"],
    ];
    let shape = r.pick(shapes);
    let mut ops = vec![];
    for role in shape.iter() {
        let version = match *role {
            "good" => 0,
            "poisoned" => 1,
            _ => {
                if has_skipped {
                    2
                } else {
                    continue;
                }
            }
        };
        let mut inv = base_inv(&lang, mode.clone(), config.clone());
        inv.version = version;
        inv.role = role.to_string();
        inv.fresh_out = false;
        inv.knobs = random_knobs(r, true);
        inv.sched = random_sched(r);
        inv.hash_seed = r.next();
        ops.push(inv);
    }
    let preseed = gen_preseed(r, &lang, &mode, &world);
    let extra: Vec<String> = if r.chance(1, 8) { vec!["--target-os".into(), r.pick(&["linux", "ios", "android"]).to_string()] } else { vec![] };
    for o in ops.iter_mut() {
        if r.chance(1, 8) {
            o.src_age = r.range(1, 2) as u8;
        }
        o.extra = extra.clone();
    }
    Case { property: "C08".into(), versions, ops, notes, preseed }
}

fn untouched(before: &super::exec::Snapshot, after: &super::exec::Snapshot) -> Option<String> {
    for (k, b) in before {
        match after.get(k) {
            None => return Some(format!("{k} was removed")),
            Some(a) if a.bytes != b.bytes => return Some(format!("{k} changed content")),
            Some(a) if a.ino != b.ino => return Some(format!("{k} was replaced (inode changed)")),
            Some(a) if a.mtime_ns != b.mtime_ns => return Some(format!("{k} was rewritten (mtime changed)")),
            _ => {}
        }
    }
    for k in after.keys() {
        if !before.contains_key(k) {
            return Some(format!("{k} was created"));
        }
    }
    None
}

fn reference_run(sc: &mut Scratch, tree: &Tree, inv: &Inv, stats: &mut Stats) -> Outcome {
    let mut rinv = inv.clone();
    rinv.fresh_out = true;
    rinv.faults.clear();
    rinv.role = "fresh_reference".into();
    let refout = sc.refout();
    // "an empty location": an existing, empty directory (run_invocation clears it first)
    rinv.fresh_out = false;
    sc.clear_dir(&refout);
    let _ = std::fs::create_dir_all(&refout);
    let o = run_invocation(sc, tree, &rinv, &refout);
    stats.record(tree_digest(tree), tree.len(), &rinv, &o, 1, true);
    o
}

fn eval_c08(case: &Case, sc: &mut Scratch, res: &mut EvalResult) {
    let out = sc.out();
    sc.clear_dir(&out);
    // by convention versions[0] is the tree without the construct; the case is only meaningful if
    // that tree is accepted under the history's language, mode and configuration
    if let Some(first) = case.ops.first() {
        let mut probe = base_inv(&first.lang, first.mode.clone(), first.config.clone());
        probe.extra = first.extra.clone();
        let r = reference_run(sc, &case.versions[0], &probe, &mut res.stats);
        if r.class != ResultClass::Ok {
            res.rejected = true;
            return;
        }
    }
    apply_preseed(case, &out);
    let mut poison_path = String::new();
    let mut more_poison_paths: Vec<String> = vec![];
    for n in &case.notes {
        let parts: Vec<&str> = n.split(':').collect();
        if parts.len() >= 3 && parts[0] == "poison" {
            if poison_path.is_empty() {
                poison_path = format!("ws/{}", parts[2]);
            } else {
                more_poison_paths.push(format!("ws/{}", parts[2]));
            }
        }
    }
    for (idx, inv) in case.ops.iter().enumerate() {
        let tree = &case.versions[inv.version.min(case.versions.len() - 1)];
        super::exec::age_files(&out);
        let o = run_invocation(sc, tree, inv, &out);
        res.stats.record(tree_digest(tree), tree.len(), inv, &o, case.ops.len(), false);
        let ctxs = format!("{}/{:?}", inv.lang, inv.mode);
        let mut push = |class: &str, detail: String, message: String| {
            res.violations.push(Violation { property: "C08".into(), class: class.into(), detail, message, op_index: idx });
        };
        match inv.role.as_str() {
            "poisoned" => {
                res.stats.check("c08_poison_rejected");
                let pid = case.notes.first().and_then(|n| n.split(':').nth(1)).unwrap_or("").to_string();
                if o.class == ResultClass::Ok {
                    // generated constructs: one signature per base construct, not per position
                    let pid_sig = if pid.starts_with("gen/") { pid.split('/').take(2).collect::<Vec<_>>().join("/") } else { pid.clone() };
                    push("POISON_ACCEPTED", pid_sig, format!("run succeeded although {poison_path} contains the unsupported construct {pid}"));
                }
                if o.class != ResultClass::Ok {
                    res.stats.check("c08_failed_run_left_output_alone");
                    let muts: Vec<String> = o.oplog.iter().filter(|op| op.is_mutating()).map(|op| format!("{} {}", op.op, op.path)).collect();
                    if let Some(what) = untouched(&o.before, &o.after) {
                        let partial = o.before.is_empty();
                        push(
                            if partial { "PARTIAL_OUTPUT" } else { "FAILED_RUN_MUTATED_OUTPUT" },
                            ctxs.clone(),
                            format!("failed run ({:?}) modified the output location: {what}; mutating ops: {:?}", o.class, muts),
                        );
                    } else if !muts.is_empty() {
                        push("FAILED_RUN_MUTATED_OUTPUT", ctxs.clone(), format!("failed run issued mutating file-system operations: {:?}", muts));
                    }
                }
                if o.class == ResultClass::Err {
                    res.stats.check("c08_diagnostic_names_file");
                    let all = format!("{}\n{}", o.errors().join("\n"), o.err_text);
                    if !poison_path.is_empty() && !all.contains(&poison_path) {
                        push("DIAGNOSTIC_OMITS_FILE", ctxs.clone(), format!("diagnostic does not name {poison_path}: {}", all.replace('\n', " / ")));
                    } else if let Some(missing) = more_poison_paths.iter().find(|p| tree.iter().any(|f| format!("ws/{}", f.path) == **p) && !all.contains(p.as_str())) {
                        // the same construct in several files: each of them is an offending file
                        push("DIAGNOSTIC_OMITS_FILE", format!("{ctxs}|one_of_many"), format!("diagnostic does not name {missing} (one of {} files with the construct): {}", more_poison_paths.len() + 1, all.replace('\n', " / ").chars().take(600).collect::<String>()));
                    }
                }
            }
            "skipped" | "good" => {
                if inv.role == "skipped" {
                    res.stats.check("c08_skipped_accepted");
                    if o.class == ResultClass::Err {
                        push("SKIPPED_POISON_REJECTED", ctxs.clone(), format!("run failed although the construct is under a skip marker: {}", o.err_text));
                    }
                }
                if o.class == ResultClass::Ok {
                    res.stats.check("c08_output_equals_fresh_run");
                    let r = reference_run(sc, tree, inv, &mut res.stats);
                    if r.class == ResultClass::Ok {
                        let fresh = r.out_bytes();
                        let real = o.out_bytes();
                        for (k, v) in &fresh {
                            if real.get(k) != Some(v) {
                                push("OUTPUT_DIFFERS_FROM_FRESH_RUN", ctxs.clone(), format!("{k} differs from what a run into an empty location produces"));
                                break;
                            }
                        }
                    }
                }
            }
            _ => {}
        }
        res.outcomes.push(o);
    }
}

// ------------------------------------------------------------------------------------------------
// C17
// ------------------------------------------------------------------------------------------------

pub fn gen_c17(r: &mut Rng, tier: Tier) -> Case {
    let (lang, mode) = pick_lang_mode(r);
    let mut o = gen_opts_for(&lang, r, tier);
    // (histories multiply the cost of a tree by a dozen invocations: no huge trees here)
    if o.max_files > 300 {
        o.max_files = 260;
        o.max_items = 180;
    }
    // Codable.swift is in play whenever a `()` is present
    o.unit_fields = true;
    // (edits would make platform twins differ, which is the known same-name tie)
    o.cfg_twins = false;
    o.reexports = mode == Mode::Folder && r.chance(1, 4);
    // (moving a type between crates could put two of the same name into one crate: the known tie)
    o.same_names_other_crate = false;
    let mut lang2 = lang.clone();
    if r.chance(1, 6) {
        // a second language writing into the same location
        loop {
            lang2 = r.pick(&LANGS).to_string();
            if !(lang2 == "scala" && mode == Mode::Folder) {
                break;
            }
        }
        o.consts = o.consts && lang_supports_consts(&lang2);
    }
    let world = gen::gen_world(r, &o);
    let mut worlds = vec![world];
    let mut notes = vec![];
    let nver = r.range(2, 4) as usize;
    while worlds.len() < nver {
        let base = r.pick(&worlds).clone();
        let (w, what) = base.edit(r);
        notes.push(format!("v{}: {}", worlds.len(), what));
        worlds.push(w);
    }
    let versions: Vec<Tree> = worlds.iter().map(|w| w.render()).collect();
    let mut mapped: Vec<String> = worlds[0].items.iter().filter(|i| i.annotated && i.kind != gen::Kind::Const).map(|i| i.name.clone()).collect();
    r.shuffle(&mut mapped);
    if !r.chance(1, 5) {
        mapped.clear();
    }
    let config = gen::default_config_with(r, &lang, false, &mapped);
    let fault_case = r.chance(4, 10);
    let nops = r.range(2, 6) as usize;
    let mut ops: Vec<Inv> = vec![];
    for i in 0..nops {
        let mut inv = base_inv(if r.chance(1, 4) { &lang2 } else { &lang }, mode.clone(), config.clone());
        inv.role = "run".into();
        inv.fresh_out = false;
        inv.version = if i > 0 && r.chance(2, 5) { ops[i - 1].version } else { r.below(versions.len() as u64) as usize };
        if i > 0 && r.chance(1, 3) {
            inv.lang = ops[i - 1].lang.clone();
            inv.version = ops[i - 1].version;
        }
        inv.knobs = random_knobs(r, true);
        inv.sched = random_sched(r);
        inv.hash_seed = r.next();
        if fault_case && r.chance(2, 3) {
            let f = match r.below(5) {
                4 => Fault::OutRead { nth: r.below(4) as u32, kind: r.pick(&[IoKind::Eacces, IoKind::Eio]).clone() },
                0 => Fault::Write { nth: r.below(4) as u32, kind: r.pick(&[IoKind::Enospc, IoKind::Eio, IoKind::Eacces]).clone() },
                1 => Fault::ShortWrite { nth: r.below(4) as u32, keep_permille: r.below(1000) as u32, kind: IoKind::Enospc },
                _ => Fault::Crash { at: r.below(8) as u32, keep_permille: r.below(1000) as u32 },
            };
            inv.faults.push(f);
            // make the operation after a fault likely to be a successful one over the same inputs
        }
        ops.push(inv);
    }
    if fault_case {
        notes.push("fault_case".into());
    }
    // the wall clock moves between runs: seconds, days, and now and then backwards
    let mut now: i64 = 1_700_000_000 + r.below(1000) as i64 * 3600;
    for o in ops.iter_mut() {
        now += match r.below(10) {
            0..=4 => r.range(1, 120) as i64,
            5..=7 => r.range(1, 400) as i64 * 86_400,
            8 => -(r.range(1, 48) as i64) * 3600,
            _ => 0,
        };
        o.wall_clock = now;
    }
    // somebody edits or deletes generated files by hand between two runs
    if r.chance(1, 5) && ops.len() >= 2 {
        let at = r.range(1, ops.len() as u64 - 1) as usize;
        let what = *r.pick(&["tamper:delete", "tamper:garble", "tamper:truncate", "tamper:delete_all", "tamper:append", "tamper:prepend", "tamper:banner", "tamper:crlf", "tamper:midline", "tamper:strip_nl", "tamper:extra_nl", "tamper:trail_ws", "tamper:case", "tamper:swap", "tamper:indent", "tamper:symlink", "tamper:readonly"]);
        let mut t = ops[at].clone();
        t.role = format!("{what}:{}", r.below(8));
        t.faults.clear();
        ops.insert(at, t);
        notes.push("tamper".into());
    }
    // the configuration is an input, too: some histories change it between runs
    if r.chance(1, 5) {
        let alt = gen::default_config(r, &lang, false);
        for o in ops.iter_mut() {
            if r.chance(1, 2) {
                o.config = alt.clone();
            }
        }
        notes.push("config_varies".into());
    }
    // clock skew: sources older than the outputs / from the future, per operation
    if r.chance(1, 3) {
        for o in ops.iter_mut() {
            if r.chance(1, 2) {
                o.src_age = r.range(1, 2) as u8;
            }
        }
        notes.push("clock_skew".into());
    }
    let mut preseed = if r.chance(1, 4) { gen_preseed(r, &lang, &mode, &worlds[0]) } else { vec![] };
    // output path shape: a bare file name in the working directory (single-file mode)
    let bare = mode == Mode::File && r.chance(1, 6);
    if bare {
        for o in ops.iter_mut() {
            o.out_sub = super::exec::BARE.to_string();
        }
    }
    // output path shape: nested directories that do not exist yet, trailing slash
    if !bare && r.chance(1, 6) {
        let sub = r.pick(&["gen/nested", "gen/", "a/b/c"]).to_string();
        for o in ops.iter_mut() {
            o.out_sub = sub.clone();
        }
        let dir = if sub.ends_with('/') { sub.clone() } else { format!("{sub}/") };
        for p in preseed.iter_mut() {
            p.0 = format!("{dir}{}", p.0);
        }
    }
    Case { property: "C17".into(), versions, ops, notes, preseed }
}

fn eval_c17(case: &Case, sc: &mut Scratch, res: &mut EvalResult) {
    let out = sc.out();
    sc.clear_dir(&out);
    let _ = std::fs::remove_dir_all(out.parent().unwrap_or(&out).join("lnk_targets"));
    apply_preseed(case, &out);
    let mut after_fault = false;
    // inputs of the last successful, undisturbed run (for the plain idempotence clause)
    let mut last_clean: Option<String> = None;
    for (idx, inv) in case.ops.iter().enumerate() {
        let tree = &case.versions[inv.version.min(case.versions.len() - 1)];
        if let Some(t) = inv.role.strip_prefix("tamper:") {
            // somebody edits the generated files by hand
            let before = super::exec::snapshot(&out);
            let files: Vec<&String> = before.keys().filter(|k| !k.ends_with('/')).collect();
            let mut parts = t.split(':');
            let what = parts.next().unwrap_or("");
            let n: usize = parts.next().and_then(|x| x.parse().ok()).unwrap_or(0);
            if what == "delete_all" {
                sc.clear_dir(&out);
            } else if !files.is_empty() {
                let p = out.join(files[n % files.len()]);
                match what {
                    "delete" => {
                        let _ = std::fs::remove_file(&p);
                    }
                    "garble" => {
                        // re-saved in another encoding: not valid UTF-8 any more
                        let _ = std::fs::write(&p, b"// edit\xe9 \xe0 la main\n\xff\xfe\n");
                    }
                    "truncate" => {
                        let b = std::fs::read(&p).unwrap_or_default();
                        let _ = std::fs::write(&p, &b[..b.len() / 2]);
                    }
                    "prepend" => {
                        // a merge went wrong: a conflict marker in front of the first line
                        let mut b = b"<<<<<<< HEAD ".to_vec();
                        b.extend(std::fs::read(&p).unwrap_or_default());
                        let _ = std::fs::write(&p, b);
                    }
                    "banner" => {
                        // the file of another release: the version number in the first lines differs
                        let b = std::fs::read(&p).unwrap_or_default();
                        let mut lines = 0;
                        let edited: Vec<u8> = b
                            .iter()
                            .map(|c| {
                                if *c == b'\n' {
                                    lines += 1;
                                }
                                if lines < 3 && c.is_ascii_digit() { b'0' } else { *c }
                            })
                            .collect();
                        let _ = std::fs::write(&p, edited);
                    }
                    "crlf" => {
                        // re-saved with the other line ending
                        let b = std::fs::read(&p).unwrap_or_default();
                        let mut e = Vec::with_capacity(b.len() + 64);
                        for c in b {
                            if c == b'\n' {
                                e.push(b'\r');
                            }
                            e.push(c);
                        }
                        let _ = std::fs::write(&p, e);
                    }
                    "strip_nl" => {
                        // an editor that drops the final newline(s)
                        let mut b = std::fs::read(&p).unwrap_or_default();
                        while b.last() == Some(&b'\n') {
                            b.pop();
                        }
                        let _ = std::fs::write(&p, b);
                    }
                    "extra_nl" => {
                        // white space only: blank lines after the last and before the first line
                        let mut b = b"\n".to_vec();
                        b.extend(std::fs::read(&p).unwrap_or_default());
                        b.extend_from_slice(b"\n\n");
                        let _ = std::fs::write(&p, b);
                    }
                    "trail_ws" => {
                        // white space only: a blank at the end of every line
                        let b = std::fs::read(&p).unwrap_or_default();
                        let mut e = Vec::with_capacity(b.len() + 64);
                        for c in b {
                            if c == b'\n' {
                                e.push(b' ');
                            }
                            e.push(c);
                        }
                        let _ = std::fs::write(&p, e);
                    }
                    "indent" => {
                        // white space only: tabs for the leading blanks (a formatter ran over the file)
                        let b = std::fs::read(&p).unwrap_or_default();
                        let t = String::from_utf8_lossy(&b).replace("\n    ", "\n\t").replace("\n  ", "\n\t");
                        let _ = std::fs::write(&p, t.as_bytes());
                    }
                    "case" => {
                        // letter case only: same length, same letters
                        let mut b = std::fs::read(&p).unwrap_or_default();
                        let from = b.len() / 3;
                        if let Some(i) = (from..b.len()).find(|i| b[*i].is_ascii_alphabetic()) {
                            b[i] ^= 0x20;
                        }
                        let _ = std::fs::write(&p, b);
                    }
                    "symlink" => {
                        // the generated file lives elsewhere and the output path is a link to it
                        // (a checkout managed by a link farm): same content through the same path
                        let tdir = out.parent().unwrap_or(&out).join("lnk_targets");
                        let _ = std::fs::create_dir_all(&tdir);
                        let t = tdir.join(format!("t{idx}_{n}"));
                        if std::fs::symlink_metadata(&p).map(|m| m.file_type().is_file()).unwrap_or(false) && std::fs::rename(&p, &t).is_ok() {
                            let _ = std::os::unix::fs::symlink(&t, &p);
                        }
                    }
                    "readonly" => {
                        // the write permission bits are cleared (a version-control system that
                        // locks files). Only where that does not stop the tool from writing
                        // (uid 0): otherwise a failing run would be the file system's doing.
                        if unsafe { libc::geteuid() } == 0 {
                            use std::os::unix::fs::PermissionsExt;
                            let _ = std::fs::set_permissions(&p, std::fs::Permissions::from_mode(0o444));
                        }
                    }
                    "swap" => {
                        // two generated files exchanged (same sizes in total, each intact)
                        if files.len() >= 2 {
                            let q = out.join(files[(n + 1) % files.len()]);
                            let a = std::fs::read(&p).unwrap_or_default();
                            let c = std::fs::read(&q).unwrap_or_default();
                            let _ = std::fs::write(&p, c);
                            let _ = std::fs::write(&q, a);
                        }
                    }
                    "midline" => {
                        // one character changed somewhere in the middle
                        let mut b = std::fs::read(&p).unwrap_or_default();
                        if !b.is_empty() {
                            let i = b.len() / 2;
                            b[i] = if b[i] == b'x' { b'y' } else { b'x' };
                        }
                        let _ = std::fs::write(&p, b);
                    }
                    _ => {
                        let mut b = std::fs::read(&p).unwrap_or_default();
                        b.extend_from_slice(b"// local edit\n");
                        let _ = std::fs::write(&p, b);
                    }
                }
            }
            *res.stats.fired.entry(format!("manual_edit:{what}")).or_insert(0) += 1;
            last_clean = None;
            res.outcomes.push(Outcome::placeholder(before, super::exec::snapshot(&out)));
            continue;
        }
        super::exec::age_files(&out);
        let o = run_invocation(sc, tree, inv, &out);
        res.stats.record(tree_digest(tree), tree.len(), inv, &o, case.ops.len(), false);
        let ctxs = format!("{}/{:?}", inv.lang, inv.mode);
        let fault_fired = o.oplog.iter().any(|op| op.fault.is_some());
        let inputs_key = format!("{:016x}|{}|{:?}|{}|{:?}|{:?}|{}", tree_digest(tree), inv.lang, inv.mode, inv.config, inv.extra, inv.roots, inv.out_sub);
        let identical_rerun = last_clean.as_deref() == Some(inputs_key.as_str());
        if o.class == ResultClass::Ok && !fault_fired {
            last_clean = Some(inputs_key);
        } else {
            last_clean = None;
        }
        if o.class == ResultClass::Err && !fault_fired && inv.faults.is_empty() {
            // a run may fail because of its inputs, never because of what earlier runs (or anybody
            // else) left in the output location: the same run into an empty location decides
            res.stats.check("c17_failure_independent_of_old_output");
            let r = reference_run(sc, tree, inv, &mut res.stats);
            if r.class == ResultClass::Ok {
                res.violations.push(Violation {
                    property: "C17".into(),
                    class: "FAILS_BECAUSE_OF_EARLIER_OUTPUT".into(),
                    detail: ctxs.clone(),
                    message: format!(
                        "run #{idx} fails ({}) although the same run into an empty location succeeds: the outcome depends on what was in the output location",
                        o.err_text.lines().next().unwrap_or("")
                    ),
                    op_index: idx,
                });
            }
        }
        if o.class == ResultClass::Ok && !fault_fired && identical_rerun {
            // "running again with unchanged sources leaves every output file byte-identical and
            // untouched" - whatever the time of day, the schedule or the hash seed
            for (k, b) in o.before.iter().filter(|(k, _)| !k.ends_with('/')) {
                res.stats.check("c17_identical_rerun");
                let touched = match o.after.get(k) {
                    None => Some("was removed".to_string()),
                    Some(a) if a.bytes != b.bytes => Some("changed content".to_string()),
                    Some(a) if a.ino != b.ino || a.mtime_ns != b.mtime_ns => Some("was rewritten".to_string()),
                    _ => None,
                };
                // files that merely were rewritten with the same bytes are reported by the
                // `untouched` clause below (known-finding signatures live there)
                if let Some(what) = touched.filter(|w| w != "was rewritten") {
                    res.violations.push(Violation {
                        property: "C17".into(),
                        class: "CHANGED_ON_IDENTICAL_RERUN".into(),
                        detail: format!("{ctxs}|{}", file_kind(k)),
                        message: format!("run #{idx} repeats the previous run's inputs exactly, yet {k} {what}"),
                        op_index: idx,
                    });
                }
            }
        }
        if o.class == ResultClass::Ok && !fault_fired {
            let r = reference_run(sc, tree, inv, &mut res.stats);
            if r.class == ResultClass::Ok {
                let fresh = r.out_bytes();
                for (k, want) in &fresh {
                    res.stats.check("c17_latest_inputs");
                    let got = o.after.get(k);
                    if got.map(|g| &g.bytes) != Some(want) {
                        let class = if after_fault { "NOT_CONVERGED_AFTER_FAULT" } else { "STALE_CONTENT" };
                        res.violations.push(Violation {
                            property: "C17".into(),
                            class: class.into(),
                            detail: format!("{ctxs}|{}", file_kind(k)),
                            message: format!(
                                "after run #{idx} the file {k} {} instead of holding what a run into an empty location produces",
                                if got.is_none() { "is missing" } else { "has other content" }
                            ),
                            op_index: idx,
                        });
                        continue;
                    }
                    if let Some(b) = o.before.get(k) {
                        if &b.bytes == want {
                            res.stats.check("c17_untouched");
                            let a = got.unwrap();
                            let muts: Vec<String> =
                                o.oplog.iter().filter(|op| op.is_mutating() && op.path == format!("out/{k}")).map(|op| op.op.clone()).collect();
                            if !muts.is_empty() || a.ino != b.ino || a.mtime_ns != b.mtime_ns {
                                res.violations.push(Violation {
                                    property: "C17".into(),
                                    class: "REWRITE_OF_UNCHANGED".into(),
                                    // how often the file was (re)written in this one run: a file that
                                    // two writers fight over is a different defect from a compare that
                                    // does not recognise an up-to-date file
                                    detail: format!("{ctxs}|{}|{}", file_kind(k), {
                                        let full_writes = muts.iter().filter(|m| matches!(m.as_str(), "write" | "create" | "rename")).count();
                                        if muts.is_empty() { "state_only" } else if full_writes >= 2 { "written_twice" } else { "written_once" }
                                    }),
                                    message: format!(
                                        "run #{idx} touched {k} although its content was already up to date (ops {:?}, inode {}→{}, mtime changed: {})",
                                        muts,
                                        b.ino,
                                        a.ino,
                                        a.mtime_ns != b.mtime_ns
                                    ),
                                    op_index: idx,
                                });
                            }
                        }
                    }
                }
            }
            after_fault = false;
        } else if o.class != ResultClass::Ok || fault_fired {
            // a run that reports success although a write to (or a read of) the output location
            // failed on the way has absorbed the error (a retry, a fallback): it is a successful run
            // like any other, and what it is responsible for must be what a fresh run produces.
            // (Failing source reads and directory listings are C07's business, not looked at here.)
            let output_side_only = o.oplog.iter().filter_map(|op| op.fault.as_deref()).all(|f| f.starts_with("write_fail") || f.starts_with("short_write") || f.starts_with("out_read_fail"));
            if o.class == ResultClass::Ok && fault_fired && output_side_only {
                let r = reference_run(sc, tree, inv, &mut res.stats);
                if r.class == ResultClass::Ok {
                    for (k, want) in &r.out_bytes() {
                        res.stats.check("c17_success_after_absorbed_fault");
                        let got = o.after.get(k);
                        if got.map(|g| &g.bytes) != Some(want) {
                            res.violations.push(Violation {
                                property: "C17".into(),
                                class: "WRONG_CONTENT_AFTER_ABSORBED_FAULT".into(),
                                detail: format!("{ctxs}|{}", file_kind(k)),
                                message: format!(
                                    "run #{idx} reported success after an injected output-side fault ({}), yet the file {k} {} instead of holding what a run into an empty location produces",
                                    o.oplog.iter().filter_map(|op| op.fault.clone()).collect::<Vec<_>>().join(", "),
                                    if got.is_none() { "is missing" } else { "has other content" }
                                ),
                                op_index: idx,
                            });
                            break;
                        }
                    }
                }
            }
            if fault_fired {
                after_fault = true;
            }
        }
        res.outcomes.push(o);
    }
}

fn file_kind(name: &str) -> String {
    let name = name.rsplit('/').next().unwrap_or(name);
    if name == "Codable.swift" {
        "Codable.swift".into()
    } else {
        format!("*.{}", Path::new(name).extension().map(|e| e.to_string_lossy().into_owned()).unwrap_or_default())
    }
}

// ------------------------------------------------------------------------------------------------
// dispatch
// ------------------------------------------------------------------------------------------------

pub fn gen_case(property: &str, seed: u64, tier: Tier) -> Case {
    let mut r = Rng::new(seed);
    match property {
        "C06" => gen_c06(&mut r, tier),
        "C07" => gen_c07(&mut r, tier),
        "C08" => gen_c08(&mut r, tier),
        "C17" => gen_c17(&mut r, tier),
        _ => panic!("unknown property {property}"),
    }
}

pub fn evaluate(case: &Case, base: &Path, name: &str) -> EvalResult {
    // relative output names (the `<bare>` path shape) resolve against the working directory
    let _ = std::fs::create_dir_all(base);
    let _ = std::env::set_current_dir(base);
    let mut sc = Scratch::new(base, name);
    let mut res = EvalResult {
        violations: vec![],
        outcomes: vec![],
        stats: Stats::default(),
        rejected: false,
        expanded: case.clone(),
        event_digest: 0,
    };
    res.stats.cases = 1;
    *res.stats.ops_per_case.entry(case.ops.len()).or_insert(0) += 1;
    if !case.preseed.is_empty() {
        *res.stats.fired.entry("preexisting_output_files(cases)".to_string()).or_insert(0) += 1;
    }
    if case.preseed.iter().any(|p| p.0.ends_with('/')) {
        *res.stats.fired.entry("preexisting_empty_output_directory(cases)".to_string()).or_insert(0) += 1;
    }
    if case.versions.iter().any(|t| t.iter().any(|f| f.kind == FileKind::SymlinkToFile)) {
        *res.stats.fired.entry("symlinked_source_file(cases)".to_string()).or_insert(0) += 1;
    }
    if case.notes.iter().any(|n| n == "config_varies") {
        *res.stats.fired.entry("config_changes_between_runs(cases)".to_string()).or_insert(0) += 1;
    }
    match case.property.as_str() {
        "C06" => eval_c06(case, &mut sc, &mut res),
        "C07" => eval_c07(case, &mut sc, &mut res),
        "C08" => eval_c08(case, &mut sc, &mut res),
        "C17" => eval_c17(case, &mut sc, &mut res),
        _ => {}
    }
    if res.rejected {
        res.stats.rejects = 1;
    }
    let mut h = crate::rng::fnv(b"events");
    for o in &res.outcomes {
        h = crate::rng::fnv_more(h, &o.digest().to_le_bytes());
    }
    res.event_digest = h;
    res
}
