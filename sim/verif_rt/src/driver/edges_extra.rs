//! More named edge inputs for C07 (all syntactically valid Rust; a correct tool may accept or
//! reject each, but must neither panic nor hang).

pub const EXTRA: &[(&str, &str)] = &[
    ("empty_anon_variant_tagged", r#"#[typeshare]
#[serde(tag = "type", content = "content")]
pub enum EvT { Started, Stopped {} }
"#),
    ("empty_anon_variant_untagged", r#"#[typeshare]
pub enum EvU { Started, Stopped {} }
"#),
    ("explicit_discriminants", r#"#[typeshare]
pub enum Disc { A = 1, B = 2, C = 0x10 }
"#),
    ("typeshare_on_other_items", r#"#[typeshare]
pub fn shared_fn() {}
#[typeshare]
pub trait SharedTrait { fn f(&self); }
#[typeshare]
impl SharedStructX { }
#[typeshare]
pub static SHARED_STATIC: u32 = 1;
#[typeshare]
pub union SharedUnion { a: u32, b: f32 }
#[typeshare]
pub struct SharedStructX { pub a: u32 }
"#),
    ("nested_option", r#"#[typeshare]
pub struct NestedOpt { pub a: Option<Option<u32>>, pub b: Option<Vec<Option<String>>> }
"#),
    ("array_and_slice", r#"#[typeshare]
pub struct Arr<'a> { pub a: [u32; 3], pub b: &'a [u8], pub c: Vec<[u8; 2]>, pub d: [[u8; 2]; 2] }
"#),
    ("array_len_expr", r#"#[typeshare]
pub struct ArrExpr { pub a: [u8; LEN], pub b: [u8; 2 + 2] }
"#),
    ("raw_ident", r#"#[typeshare]
pub struct RawId { pub r#type: u32, pub r#match: String }
#[typeshare]
pub enum RawEn { r#Loop, r#While }
"#),
    ("where_clause_generic", r#"#[typeshare]
pub struct Wh<T> where T: Clone { pub v: T }
#[typeshare]
pub struct Cg<const N: usize> { pub v: [u8; N] }
#[typeshare]
pub struct Lt<'a, T: 'a + Clone = String> { pub v: &'a T }
"#),
    ("serde_rename_empty", r#"#[typeshare]
#[serde(rename = "")]
pub struct EmptyRename { #[serde(rename = "")] pub v: u32 }
"#),
    ("rename_all_bogus", r#"#[typeshare]
#[serde(rename_all = "bogusCase")]
pub struct Bogus { pub some_field: u32 }
#[typeshare]
#[serde(rename_all = "SCREAMING-KEBAB-CASE")]
pub enum Bogus2 { OneTwo, three_four }
"#),
    ("doc_comment_odd", r#"/// ends a block comment */ and starts one /* here
/// unicode: 😀 rtl
/** block doc
 * second */
#[doc = "attr doc with \"quotes\" and \\ backslash"]
#[typeshare]
pub struct Documented {
    /// field doc */
    pub v: u32,
}
"#),
    ("deep_nesting", r#"#[typeshare]
pub struct Deep { pub v: Vec<Vec<Vec<Option<HashMap<String, Vec<Option<Vec<u8>>>>>>>> }
"#),
    ("generic_newtype", r#"#[typeshare]
pub struct Wrapper<T>(T);
#[typeshare]
pub type AliasG<T> = Vec<T>;
#[typeshare]
pub struct UsesG { pub a: Wrapper<u32>, pub b: AliasG<String> }
"#),
    ("variant_rename_odd", r#"#[typeshare]
#[serde(tag = "t", content = "c", rename_all = "kebab-case")]
pub enum VarRen { #[serde(rename = "x y")] Aa, #[serde(rename = "9lives")] Bb(u32), #[serde(alias = "cc")] CcDd { e_f: u8 } }
"#),
    ("i54_u53", r#"#[typeshare]
pub struct Wide { pub a: I54, pub b: U53, pub c: Option<I54> }
"#),
    ("fn_pointer_field", r#"#[typeshare]
pub struct Exotic { pub f: fn(u32) -> u32 }
"#),
    ("dyn_and_ptr", r#"#[typeshare]
pub struct DynPtr { pub d: Box<dyn Send>, pub p: *const u8 }
"#),
    ("paren_never_macro", r#"#[typeshare]
pub struct Pnm { pub a: (u32), pub b: !, pub c: my_ty!() }
"#),
    ("infer_alias", r#"#[typeshare]
pub type Inferred = _;
"#),
    ("unknown_typeshare_keys", r#"#[typeshare(unknown_key = "x", another)]
pub struct UnknownKeys { #[typeshare(nothing)] pub v: u32 }
"#),
    ("generic_self_reference_twice", r#"#[typeshare]
pub struct BinTree<T> { pub value: T, pub left: Option<Box<BinTree<T>>>, pub right: Option<Box<BinTree<T>>> }
#[typeshare]
pub struct Rose<T> { pub value: T, pub kids: Vec<Rose<T>>, pub more: Vec<Rose<T>> }
#[typeshare]
pub struct UsesTrees { pub a: BinTree<u32>, pub b: Rose<String> }
"#),
    ("use_cycle_of_modules", r#"use first_mod::second_mod;
use second_mod::first_mod;
use third as fourth;
use fourth as third;
#[typeshare]
pub struct AfterUseCycle { pub v: second_mod::Thing, pub w: third::Other }
pub fn unrelated() { let _x = first_mod::value(); }
"#),
    ("mutually_recursive_generics", r#"#[typeshare]
pub struct Ping<T> { pub pong: Option<Box<Pong<T>>>, pub also: Vec<Pong<T>> }
#[typeshare]
pub struct Pong<T> { pub ping: Option<Box<Ping<T>>>, pub also: Vec<Ping<T>> }
"#),
    ("self_reference", r#"#[typeshare]
pub struct Tree { pub kids: Vec<Tree>, pub parent: Option<Box<Tree>> }
"#),
    ("keyword_names", r#"#[typeshare]
pub struct Keywords { pub class: u32, pub function: u32, pub val: u32, pub var: u32, pub default: u32, pub object: u32, pub None: u32 }
"#),
    ("cfg_attrs", r#"#[cfg(target_os = "android")]
#[typeshare]
pub struct OnlyAndroid { pub v: u32 }
#[typeshare]
pub struct MixedOs { #[cfg(target_os = "ios")] pub i: u32, #[cfg(not(target_os = "ios"))] pub n: u32, #[cfg(any(target_os = "linux", feature = "x"))] pub l: u32 }
"#),
    ("crlf_and_bom", "\u{feff}#[typeshare]\r\npub struct Crlf {\r\n    pub v: u32,\r\n}\r\n"),
    ("macro_wrapped_items", r#"macro_rules! mk { () => { #[typeshare] pub struct InMacro { pub v: u32 } } }
mk!();
#[typeshare]
pub struct AfterMacro { pub v: u32 }
"#),
    ("attr_order", r#"#[derive(Clone)]
#[serde(rename_all = "camelCase")]
#[typeshare]
#[serde(rename = "AttrOrderWire")]
pub struct AttrOrder { #[serde(default, rename = "zed")] #[typeshare(skip)] pub a_b: u32, pub c_d: u32 }
"#),
    ("serialized_as_odd", r#"#[typeshare(serialized_as = "")]
pub struct SerEmpty(String);
#[typeshare]
pub struct SerFields { #[typeshare(serialized_as = "Vec<Option<String>>")] pub a: u32, #[typeshare(serialized_as = "()")] pub b: u32, #[typeshare(serialized_as = "HashMap<String>")] pub c: u32 }
"#),
    ("option_of_unit_and_map_keys", r#"#[typeshare]
pub struct MapKeys { pub a: HashMap<u32, String>, pub b: HashMap<Vec<String>, u8>, pub c: Option<()>, pub d: HashMap<(), ()> }
"#),
    ("tagged_enum_same_keys", r#"#[typeshare]
#[serde(tag = "content", content = "content")]
pub enum SameKeys { A(String), B { content: u32 } }
#[typeshare]
#[serde(tag = "", content = "")]
pub enum EmptyKeys { A(String) }
"#),
    ("swift_constraints_odd", r#"#[typeshare(swiftGenericConstraints = "T: , : Equatable, U")]
pub struct OddConstraints<T, U> { pub a: T, pub b: U }
#[typeshare(swift = "", kotlin = "")]
pub struct EmptyDecorators { pub v: u32 }
"#),
    ("long_non_ascii_unsupported_type_0", r#"#[typeshare]
pub struct LongExotic0 { pub f: Box<dyn Fn(A, ÄäÄäÄäÄäÄäÄäÄäÄäÄäÄäÄäÄä, ÄäÄäÄäÄäÄäÄäÄäÄäÄäÄäÄäÄä, ÄäÄäÄäÄäÄäÄäÄäÄäÄäÄäÄäÄä, ÄäÄäÄäÄäÄäÄäÄäÄäÄäÄäÄäÄä, ÄäÄäÄäÄäÄäÄäÄäÄäÄäÄäÄäÄä, ÄäÄäÄäÄäÄäÄäÄäÄäÄäÄäÄäÄä, ÄäÄäÄäÄäÄäÄäÄäÄäÄäÄäÄäÄä, ÄäÄäÄäÄäÄäÄäÄäÄäÄäÄäÄäÄä) -> ÄäÄäÄäÄäÄäÄäÄäÄäÄäÄäÄäÄä> }
"#),
    ("long_non_ascii_unsupported_type_1", r#"#[typeshare]
pub struct LongExotic1 { pub f: Box<dyn Fn(Ab, ÄäÄäÄäÄäÄäÄäÄäÄäÄäÄäÄäÄä, ÄäÄäÄäÄäÄäÄäÄäÄäÄäÄäÄäÄä, ÄäÄäÄäÄäÄäÄäÄäÄäÄäÄäÄäÄä, ÄäÄäÄäÄäÄäÄäÄäÄäÄäÄäÄäÄä, ÄäÄäÄäÄäÄäÄäÄäÄäÄäÄäÄäÄä, ÄäÄäÄäÄäÄäÄäÄäÄäÄäÄäÄäÄä, ÄäÄäÄäÄäÄäÄäÄäÄäÄäÄäÄäÄä, ÄäÄäÄäÄäÄäÄäÄäÄäÄäÄäÄäÄä) -> ÄäÄäÄäÄäÄäÄäÄäÄäÄäÄäÄäÄä> }
"#),
    ("long_non_ascii_unsupported_type_2", r#"#[typeshare]
pub struct LongExotic2 { pub f: Box<dyn Fn(Abcdefghijklmnopqrstu, ÄäÄäÄäÄäÄäÄäÄäÄäÄäÄäÄäÄä, ÄäÄäÄäÄäÄäÄäÄäÄäÄäÄäÄäÄä, ÄäÄäÄäÄäÄäÄäÄäÄäÄäÄäÄäÄä, ÄäÄäÄäÄäÄäÄäÄäÄäÄäÄäÄäÄä, ÄäÄäÄäÄäÄäÄäÄäÄäÄäÄäÄäÄä, ÄäÄäÄäÄäÄäÄäÄäÄäÄäÄäÄäÄä, ÄäÄäÄäÄäÄäÄäÄäÄäÄäÄäÄäÄä, ÄäÄäÄäÄäÄäÄäÄäÄäÄäÄäÄäÄä) -> ÄäÄäÄäÄäÄäÄäÄäÄäÄäÄäÄäÄä> }
"#),
    ("long_ascii_unsupported_type", r#"#[typeshare]
pub struct LongAscii { pub f: Box<dyn Fn(SomeRatherLongTypeName, SomeRatherLongTypeName, SomeRatherLongTypeName, SomeRatherLongTypeName, SomeRatherLongTypeName, SomeRatherLongTypeName, SomeRatherLongTypeName, SomeRatherLongTypeName, SomeRatherLongTypeName, SomeRatherLongTypeName, SomeRatherLongTypeName, SomeRatherLongTypeName) -> SomeRatherLongTypeName> }
"#),
];
