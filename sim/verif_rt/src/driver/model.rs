//! Data model of a simulated case: source trees (versions), CLI invocations with their knobs,
//! hash seed, schedule and fault plan, and the histories built from them. Everything here is
//! explicit data (no generator seeds), so a replay file stays valid when the generator changes.

use crate::ctx::{Fault, Knobs};
use crate::sched::SchedSpec;
use serde::{Deserialize, Serialize};

#[derive(Clone, Debug, Serialize, Deserialize, PartialEq, Eq, Hash)]
pub enum FileKind {
    /// ordinary file: content = concatenated chunks (or `raw_hex` when not UTF-8)
    Text,
    /// symlink to a path that does not exist
    DanglingSymlink,
    /// a directory whose name ends in `.rs`
    Directory,
    /// relative symlink to another file of the tree; `chunks[0]` holds the target's path
    /// (relative to the workspace)
    SymlinkToFile,
    /// symlink to its own parent directory (a loop when links are followed)
    SymlinkLoop,
}

#[derive(Clone, Debug, Serialize, Deserialize, PartialEq, Eq, Hash)]
pub struct SrcFile {
    /// path relative to the workspace directory handed to the CLI, e.g. `crate_a/src/lib.rs`
    pub path: String,
    pub kind: FileKind,
    /// `use` lines and items; the file's text is their concatenation
    pub chunks: Vec<String>,
    /// raw bytes (hex) appended after the chunks; used for non-UTF-8 content
    #[serde(default)]
    pub raw_hex: String,
}

impl SrcFile {
    pub fn text(path: &str, chunks: Vec<String>) -> Self {
        SrcFile { path: path.to_string(), kind: FileKind::Text, chunks, raw_hex: String::new() }
    }
    pub fn bytes(&self) -> Vec<u8> {
        let mut v: Vec<u8> = self.chunks.concat().into_bytes();
        let h = self.raw_hex.as_bytes();
        let mut i = 0;
        while i + 1 < h.len() {
            let d = |c: u8| (c as char).to_digit(16).unwrap_or(0) as u8;
            v.push(d(h[i]) << 4 | d(h[i + 1]));
            i += 2;
        }
        v
    }
    pub fn is_annotated(&self) -> bool {
        self.kind == FileKind::Text && self.chunks.iter().any(|c| c.contains("#[typeshare"))
    }
}

pub type Tree = Vec<SrcFile>;

#[derive(Clone, Debug, Serialize, Deserialize, PartialEq, Eq, Hash)]
pub enum Mode {
    /// `--output-file <out>/<name>`
    File,
    /// `--output-folder <out>`
    Folder,
}

#[derive(Clone, Debug, Serialize, Deserialize, PartialEq, Eq, Hash)]
pub struct Inv {
    /// which version of the source tree is in place for this invocation
    pub version: usize,
    pub lang: String,
    pub mode: Mode,
    /// additional CLI arguments (e.g. `--target-os`, `linux`)
    pub extra: Vec<String>,
    /// content of the typeshare.toml passed with `-c` for this invocation
    pub config: String,
    pub knobs: Knobs,
    pub hash_seed: u64,
    pub sched: SchedSpec,
    pub faults: Vec<Fault>,
    /// start from an empty output location (C06, C07) instead of the persistent one (C08, C17)
    pub fresh_out: bool,
    /// free-form role tag used by the oracles ("ref", "var", "good", "poisoned", "skipped", ...)
    #[serde(default)]
    pub role: String,
    /// clock skew of the inputs: 0 = timestamps as written, 1 = sources and config older than every
    /// output file, 2 = sources and config from the future
    #[serde(default)]
    pub src_age: u8,
    /// directories handed to the CLI, relative to the workspace (empty = the workspace itself)
    #[serde(default)]
    pub roots: Vec<String>,
    /// output sub-path below the output location ("" = the location itself; may not exist yet,
    /// may end in '/'); in single-file mode the directory part of the output file
    #[serde(default)]
    pub out_sub: String,
    /// something in the way at the output location: 0 = nothing, 1 = a directory where the output
    /// file should go (single-file mode) / a regular file where the output folder should be
    #[serde(default)]
    pub obstacle: u8,
    /// simulated wall-clock time of the invocation (seconds since the epoch; 0 = a fixed default).
    /// Histories move it forwards by seconds or days and occasionally backwards.
    #[serde(default)]
    pub wall_clock: i64,
}

impl Inv {
    pub fn out_name(&self) -> String {
        match self.mode {
            Mode::File if self.out_sub == "<bare>" => format!("types.{}", lang_ext(&self.lang)),
            Mode::File => format!("{}types.{}", if self.out_sub.is_empty() || self.out_sub.ends_with('/') { self.out_sub.clone() } else { format!("{}/", self.out_sub) }, lang_ext(&self.lang)),
            Mode::Folder => String::new(),
        }
    }
}

pub fn lang_ext(lang: &str) -> &'static str {
    match lang {
        "kotlin" => "kt",
        "scala" => "scala",
        "swift" => "swift",
        "typescript" => "ts",
        "go" => "go",
        "python" => "py",
        _ => "txt",
    }
}

pub const LANGS: [&str; 6] = ["typescript", "kotlin", "swift", "scala", "go", "python"];

#[derive(Clone, Debug, Serialize, Deserialize, PartialEq, Eq, Hash)]
pub struct Case {
    pub property: String,
    pub versions: Vec<Tree>,
    pub ops: Vec<Inv>,
    /// free-form notes from the generator (what was planted where); informational
    #[serde(default)]
    pub notes: Vec<String>,
    /// files present in the output location before the first operation (name relative to the
    /// output location, content): leftovers of other tools or of earlier versions
    #[serde(default)]
    pub preseed: Vec<(String, String)>,
}

/// A violation found by an oracle.
#[derive(Clone, Debug, Serialize, Deserialize, PartialEq, Eq)]
pub struct Violation {
    pub property: String,
    /// violation class, e.g. `PANIC`, `DIFF_BY_SCHEDULE`
    pub class: String,
    /// stable discriminator within the class (panic site, differing file, ...)
    pub detail: String,
    /// human-readable explanation
    pub message: String,
    /// index of the op at which the oracle fired
    pub op_index: usize,
}

impl Violation {
    pub fn signature(&self) -> String {
        format!("{}:{}:{}", self.property, self.class, self.detail)
    }
}

#[derive(Clone, Debug, Serialize, Deserialize)]
pub struct ReplayFile {
    pub format: u32,
    pub property: String,
    pub class: String,
    pub detail: String,
    pub signature: String,
    pub message: String,
    pub seed: u64,
    pub run_index: u64,
    pub shipped_knobs: bool,
    pub event_digest: String,
    pub case: Case,
}

/// Identity of an item chunk independent of the file it lives in and of `mod` wrapping/indentation
/// (C06 re-partitions move items between files and modules).
pub fn item_key(chunk: &str) -> String {
    let mut lines: Vec<&str> = chunk.lines().map(|l| l.trim()).filter(|l| !l.is_empty()).collect();
    if lines.first().map(|l| l.starts_with("pub mod ")).unwrap_or(false) {
        lines.remove(0);
        if lines.first() == Some(&"use super::*;") {
            lines.remove(0);
        }
        if lines.last() == Some(&"}") {
            lines.pop();
        }
    }
    lines.join("\n")
}

/// Names of the #[typeshare]-annotated items defined in a tree (text scan of the generator's chunks).
pub fn annotated_item_names(tree: &Tree) -> Vec<String> {
    let mut out = vec![];
    for f in tree {
        if f.kind != FileKind::Text {
            continue;
        }
        for c in &f.chunks {
            if !c.contains("#[typeshare") {
                continue;
            }
            for line in c.lines() {
                let t = line.trim();
                for kw in ["pub struct ", "pub enum ", "pub type "] {
                    if let Some(rest) = t.strip_prefix(kw) {
                        let name: String = rest.chars().take_while(|c| c.is_alphanumeric() || *c == '_').collect();
                        if !name.is_empty() {
                            out.push(name);
                        }
                    }
                }
            }
        }
    }
    out
}

/// Two annotated items with the same name in one output namespace: anywhere in single-file
/// mode, within one crate (directory above `src`) in multi-file mode.
pub fn has_duplicate_names(tree: &Tree, mode: &Mode) -> bool {
    let mut groups: std::collections::BTreeMap<String, Tree> = Default::default();
    for f in tree {
        let key = match mode {
            Mode::File => String::new(),
            Mode::Folder => f.path.split("/src/").next().unwrap_or("").to_string(),
        };
        groups.entry(key).or_default().push(f.clone());
    }
    groups.values().any(|t| {
        let mut n = annotated_item_names(t);
        n.sort();
        n.windows(2).any(|w| w[0] == w[1])
    })
}
