//! SplitMix64: the only PRNG in the simulator. Every choice of a run is drawn from streams derived,
//! in fixed order, from one integer.

#[derive(Clone, Debug)]
pub struct Rng(pub u64);

pub fn mix(mut z: u64) -> u64 {
    z = z.wrapping_add(0x9E37_79B9_7F4A_7C15);
    z = (z ^ (z >> 30)).wrapping_mul(0xBF58_476D_1CE4_E5B9);
    z = (z ^ (z >> 27)).wrapping_mul(0x94D0_49BB_1331_11EB);
    z ^ (z >> 31)
}

impl Rng {
    pub fn new(seed: u64) -> Self {
        Rng(mix(seed ^ 0x5851_F42D_4C95_7F2D))
    }
    /// Independent sub-stream `k` of this generator's seed (does not advance `self`).
    pub fn derive(&self, k: u64) -> Rng {
        Rng(mix(self.0 ^ mix(k.wrapping_mul(0xD6E8_FEB8_6659_FD93).wrapping_add(1))))
    }
    pub fn next(&mut self) -> u64 {
        self.0 = self.0.wrapping_add(0x9E37_79B9_7F4A_7C15);
        let mut z = self.0;
        z = (z ^ (z >> 30)).wrapping_mul(0xBF58_476D_1CE4_E5B9);
        z = (z ^ (z >> 27)).wrapping_mul(0x94D0_49BB_1331_11EB);
        z ^ (z >> 31)
    }
    /// uniform in 0..n (n > 0)
    pub fn below(&mut self, n: u64) -> u64 {
        debug_assert!(n > 0);
        ((self.next() as u128 * n as u128) >> 64) as u64
    }
    pub fn range(&mut self, lo: u64, hi_incl: u64) -> u64 {
        lo + self.below(hi_incl - lo + 1)
    }
    pub fn chance(&mut self, num: u64, den: u64) -> bool {
        self.below(den) < num
    }
    pub fn pick<'a, T>(&mut self, xs: &'a [T]) -> &'a T {
        &xs[self.below(xs.len() as u64) as usize]
    }
    pub fn shuffle<T>(&mut self, xs: &mut [T]) {
        for i in (1..xs.len()).rev() {
            let j = self.below(i as u64 + 1) as usize;
            xs.swap(i, j);
        }
    }
}

/// 64-bit FNV-1a, used for digests of logs and outputs (fixed key, no hashing of addresses).
pub fn fnv(bytes: &[u8]) -> u64 {
    let mut h: u64 = 0xcbf2_9ce4_8422_2325;
    for b in bytes {
        h ^= *b as u64;
        h = h.wrapping_mul(0x0000_0100_0000_01B3);
    }
    h
}

pub fn fnv_more(mut h: u64, bytes: &[u8]) -> u64 {
    for b in bytes {
        h ^= *b as u64;
        h = h.wrapping_mul(0x0000_0100_0000_01B3);
    }
    h
}
