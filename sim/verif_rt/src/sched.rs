//! The scheduler: every "which simulated thread runs next" decision of an invocation is made here,
//! from the invocation's schedule seed, and recorded. A recorded task-id sequence replays exactly.

use crate::rng::Rng;
use serde::{Deserialize, Serialize};
use shuttle::scheduler::{Schedule, Scheduler, Task, TaskId};
use std::sync::{Arc, Mutex};

/// adversarial steps per invocation before the scheduler turns fair
pub const N_ADV: usize = 20_000;
/// fair round-robin steps within which the invocation must then finish: this many, or
/// `FAIR_PER_FILE` per file of the source tree if that is more (the shipped pipeline takes about
/// 40 steps per file; a tree of 900 files must not run out of steps because it is large)
pub const N_FAIR: usize = 20_000;
pub const FAIR_PER_FILE: usize = 400;

/// total step budget of an invocation over a tree of `files` files
pub fn step_budget(files: usize) -> usize {
    N_ADV + N_FAIR.max(FAIR_PER_FILE * files)
}

#[derive(Clone, Debug, Serialize, Deserialize, PartialEq, Eq, Hash)]
pub enum SchedSpec {
    /// uniform among runnable tasks
    Random { seed: u64 },
    /// priority based with `depth` change points
    Pct { seed: u64, depth: u32 },
    /// run the current task until it blocks or yields, then lowest id
    Sticky,
    /// follow a recorded task-id sequence, then fair round-robin
    Replay { steps: Vec<u16> },
}

#[derive(Default, Debug)]
pub struct SchedState {
    pub chosen: Vec<u16>,
    pub steps: usize,
    pub switches: usize,
    pub no_progress: bool,
    pub replay_diverged: bool,
    pub max_tasks: usize,
}

pub struct SimScheduler {
    spec: SchedSpec,
    rng: Rng,
    started: bool,
    // pct state
    prio: Vec<u64>,
    change_points: Vec<usize>,
    low_water: u64,
    rr_last: usize,
    budget: usize,
    pub state: Arc<Mutex<SchedState>>,
}

impl SimScheduler {
    pub fn new(spec: SchedSpec, budget: usize) -> (Self, Arc<Mutex<SchedState>>) {
        let seed = match &spec {
            SchedSpec::Random { seed } => *seed,
            SchedSpec::Pct { seed, .. } => *seed,
            _ => 0,
        };
        let mut rng = Rng::new(seed);
        let mut change_points = vec![];
        if let SchedSpec::Pct { depth, .. } = &spec {
            for _ in 0..*depth {
                // invocations take a few hundred to a few thousand steps
                change_points.push(rng.below(600) as usize);
            }
        }
        let state = Arc::new(Mutex::new(SchedState::default()));
        (
            SimScheduler {
                spec,
                rng,
                started: false,
                prio: vec![],
                change_points,
                low_water: u64::MAX / 4,
                rr_last: 0,
                budget,
                state: state.clone(),
            },
            state,
        )
    }

    fn fair(&mut self, ids: &[usize]) -> usize {
        // round-robin: smallest id greater than the last one chosen, else the smallest
        let pick = ids.iter().copied().find(|i| *i > self.rr_last).unwrap_or(ids[0]);
        self.rr_last = pick;
        pick
    }
}

impl Scheduler for SimScheduler {
    fn new_execution(&mut self) -> Option<Schedule> {
        if self.started {
            None
        } else {
            self.started = true;
            Some(Schedule::new(0))
        }
    }

    fn next_task(&mut self, runnable: &[&Task], current: Option<TaskId>, is_yielding: bool) -> Option<TaskId> {

        let mut ids: Vec<usize> = runnable.iter().map(|t| usize::from(t.id())).collect();
        ids.sort_unstable();
        let cur: Option<usize> = current.map(usize::from);
        let step = {
            let mut st = self.state.lock().unwrap();
            st.steps += 1;
            st.max_tasks = st.max_tasks.max(ids.iter().copied().max().unwrap_or(0) + 1);
            st.steps - 1
        };
        // The hard stop after N_ADV + N_FAIR steps is shuttle's own step bound (it unwinds the
        // runner and leaks the blocked coroutines instead of running their destructors, which may
        // themselves contain scheduling points). This is only a second line of defence.
        if step >= 2 * self.budget {
            self.state.lock().unwrap().no_progress = true;
            return None;
        }
        // simulated clock (one step = one millisecond) and quiescence: when every runnable task sits
        // in a timed wait nothing can happen before the earliest deadline, so that waiter times out
        let quiescent_pick: Option<usize> = crate::ctx::with(|c| {
            c.clock_steps = step as u64;
            if c.timed.is_empty() || !ids.iter().all(|i| c.timed.contains_key(&(*i as u32))) {
                return None;
            }
            let first = ids.iter().copied().min_by_key(|i| (c.timed[&(*i as u32)], *i))?;
            c.timed_fire.insert(first as u32);
            Some(first)
        })
        .flatten();
        let pick = if let Some(q) = quiescent_pick {
            q
        } else if step >= N_ADV {
            self.fair(&ids)
        } else {
            match &self.spec {
                SchedSpec::Random { .. } => ids[self.rng.below(ids.len() as u64) as usize],
                SchedSpec::Sticky => match cur {
                    Some(c) if !is_yielding && ids.contains(&c) => c,
                    Some(c) if is_yielding => {
                        ids.iter().copied().find(|i| *i > c).unwrap_or(ids[0])
                    }
                    _ => ids[0],
                },
                SchedSpec::Pct { .. } => {
                    let maxid = *ids.last().unwrap();
                    while self.prio.len() <= maxid {
                        // new tasks get a random priority above every demoted one
                        let p = u64::MAX / 2 + self.rng.below(u64::MAX / 4);
                        self.prio.push(p);
                    }
                    if let Some(c) = cur {
                        if is_yielding || self.change_points.contains(&step) {
                            self.low_water -= 1;
                            if c < self.prio.len() {
                                self.prio[c] = self.low_water;
                            }
                        }
                    }
                    *ids.iter().max_by_key(|i| self.prio[**i]).unwrap()
                }
                SchedSpec::Replay { steps } => {
                    if step < steps.len() {
                        let want = steps[step] as usize;
                        if ids.contains(&want) {
                            want
                        } else {
                            self.state.lock().unwrap().replay_diverged = true;
                            self.fair(&ids)
                        }
                    } else {
                        // past the recorded prefix: stay on the current task if possible
                        // (cheapest continuation), else round-robin
                        match cur {
                            Some(c) if !is_yielding && ids.contains(&c) => c,
                            _ => self.fair(&ids),
                        }
                    }
                }
            }
        };
        {
            let mut st = self.state.lock().unwrap();
            if cur != Some(pick) {
                st.switches += 1;
            }
            st.chosen.push(pick as u16);
        }
        Some(TaskId::from(pick))
    }

    fn next_u64(&mut self) -> u64 {
        self.rng.next()
    }
}
