//! Per-invocation simulation context.
//!
//! One CLI invocation runs on one fresh OS thread; shuttle executes all of its simulated threads as
//! coroutines on that same OS thread, so a plain `std::thread_local!` is shared by every simulated
//! thread of the invocation and by nothing else. Nothing in here draws from a PRNG that is not
//! derived from the invocation's seed and nothing reads a clock.

use crate::rng::Rng;
use serde::{Deserialize, Serialize};
use std::cell::RefCell;
use std::collections::BTreeMap;
use std::path::{Path, PathBuf};

/// Tuning knobs of one invocation (shipped values: workers 2, capacity 100, no channel faults).
#[derive(Clone, Debug, Serialize, Deserialize, PartialEq, Eq, Hash)]
pub struct Knobs {
    pub workers: usize,
    pub capacity: usize,
    /// max number of yields a sender performs before each send (0 = off)
    pub delay_max: u32,
    /// receiver-side reorder window: 0 = off, n = hold back until n pending, u32::MAX = hold all
    pub reorder: u32,
    /// with `reorder == u32::MAX`: explicit permutation index (Lehmer code) over the messages sorted by tag
    pub perm: Option<u64>,
}

impl Knobs {
    pub fn shipped() -> Self {
        Knobs { workers: 2, capacity: 100, delay_max: 0, reorder: 0, perm: None }
    }
    pub fn is_shipped(&self) -> bool {
        *self == Self::shipped()
    }
}

#[derive(Clone, Debug, Serialize, Deserialize, PartialEq, Eq, Hash)]
pub enum IoKind {
    Eacces,
    Eio,
    Enoent,
    Enospc,
}

impl IoKind {
    pub fn to_error(&self) -> std::io::Error {
        let code = match self {
            IoKind::Eacces => libc::EACCES,
            IoKind::Eio => libc::EIO,
            IoKind::Enoent => libc::ENOENT,
            IoKind::Enospc => libc::ENOSPC,
        };
        std::io::Error::from_raw_os_error(code)
    }
}

/// One planned fault. Read-side faults are addressed by scenario-relative path, write-side faults
/// and crashes by the index of the output-side FS operation within the invocation.
#[derive(Clone, Debug, Serialize, Deserialize, PartialEq, Eq, Hash)]
pub enum Fault {
    /// `read_to_string(path)` fails
    Read { path: String, kind: IoKind },
    /// `read_to_string(path)` is slow: the reader yields `yields` times first
    SlowRead { path: String, yields: u32 },
    /// `read_dir(dir)` fails
    Readdir { path: String, kind: IoKind },
    /// the n-th output-side read (the compare before the write) fails
    OutRead { nth: u32, kind: IoKind },
    /// the n-th mutating output-side op (mkdir / write / create) fails before any effect
    Write { nth: u32, kind: IoKind },
    /// the n-th write persists only `keep_permille`/1000 of its bytes, then fails with `kind`
    ShortWrite { nth: u32, keep_permille: u32, kind: IoKind },
    /// process dies at output-side FS op index `at` (counting reads too); a write in progress
    /// leaves a truncated file holding `keep_permille`/1000 of the bytes
    Crash { at: u32, keep_permille: u32 },
}

#[derive(Clone, Debug, Serialize, Deserialize, PartialEq, Eq)]
pub struct FsOp {
    /// read_src | readdir | read | mkdir | write | create | fwrite
    pub op: String,
    /// path relative to the scratch root
    pub path: String,
    pub bytes: u64,
    /// injected fault, if one fired here
    pub fault: Option<String>,
    /// ok | err:<kind>
    pub result: String,
}

impl FsOp {
    pub fn is_mutating(&self) -> bool {
        matches!(self.op.as_str(), "mkdir" | "write" | "create" | "fwrite" | "remove" | "rename")
    }
}

#[derive(Clone, Debug, Serialize, Deserialize, PartialEq, Eq)]
pub struct ChanEv {
    /// send | recv | send_err
    pub ev: String,
    pub task: u32,
    /// index of the source file (into the sorted list of scenario files), u32::MAX if unknown
    pub file: u32,
    pub qlen: u32,
}

#[derive(Clone, Debug, Serialize, Deserialize, PartialEq, Eq)]
pub struct PanicRec {
    pub location: String,
    pub message: String,
}

/// Payload used to unwind an invocation at an injected crash point; never a "panic".
pub struct CrashPayload;

/// Payload used to end an invocation whose code called `process::exit(status)`.
pub struct ExitPayload(pub i32);

#[derive(Default)]
pub struct Ctx {
    pub root: PathBuf,
    pub knobs: Option<Knobs>,
    pub faults: Vec<Fault>,
    pub rng: Option<Rng>,
    pub oplog: Vec<FsOp>,
    pub chanlog: Vec<ChanEv>,
    pub diags: Vec<(u8, String)>,
    pub panics: Vec<PanicRec>,
    pub probes: BTreeMap<&'static str, u64>,
    pub fired: BTreeMap<String, u64>,
    /// arrival order at the collector (file tags, in the order handed to the consumer)
    pub arrival: Vec<u32>,
    /// tag of the last source file read by each simulated task
    pub last_read: BTreeMap<u32, u32>,
    /// scenario-relative path -> tag
    pub file_tags: BTreeMap<String, u32>,
    /// counters for fault addressing
    pub out_ops: u32,
    pub mut_ops: u32,
    pub out_reads: u32,
    pub crashed: bool,
    /// abstract pipeline states seen (queue length, senders alive, receiver alive)
    pub pipe_states: std::collections::BTreeSet<(u32, u32, bool)>,
    pub senders_alive: u32,
    pub receiver_alive: bool,
    /// what the CLI's dispatch returned (error chain rendered as text)
    pub cli_result: Option<Result<(), String>>,
    /// simulated time of the invocation: one scheduler step = one millisecond (set by the scheduler)
    pub clock_steps: u64,
    /// tasks inside a timed wait (channel recv_timeout/send_timeout) and their deadlines
    pub timed: BTreeMap<u32, u64>,
    /// timed waiters the scheduler has told to time out (nothing else was runnable: the clock jumps)
    pub timed_fire: std::collections::BTreeSet<u32>,
}

thread_local! {
    static CTX: RefCell<Option<Ctx>> = const { RefCell::new(None) };
}

pub fn install(ctx: Ctx) {
    CTX.with(|c| *c.borrow_mut() = Some(ctx));
}

pub fn take() -> Option<Ctx> {
    CTX.with(|c| c.borrow_mut().take())
}

/// Run `f` with the context if one is installed on this OS thread.
pub fn with<R>(f: impl FnOnce(&mut Ctx) -> R) -> Option<R> {
    CTX.with(|c| match c.try_borrow_mut() {
        Ok(mut g) => g.as_mut().map(f),
        Err(_) => None,
    })
}

pub fn probe(name: &'static str) {
    with(|c| *c.probes.entry(name).or_insert(0) += 1);
}

pub fn fired(name: &str) {
    with(|c| *c.fired.entry(name.to_string()).or_insert(0) += 1);
}

pub fn rel(root: &Path, p: &Path) -> String {
    let s = match p.strip_prefix(root) {
        Ok(r) => r.to_string_lossy().into_owned(),
        Err(_) => p.to_string_lossy().into_owned(),
    };
    // `<root>/./x` and `<root>/x` are the same path (a CLI root given as `.`)
    let mut s = s.replace("/./", "/");
    while let Some(t) = s.strip_suffix("/.") {
        s = t.to_string();
    }
    s
}

/// Strip the scratch prefix from a diagnostic so that logs are comparable between runs.
pub fn scrub(root: &Path, s: &str) -> String {
    let r = root.to_string_lossy();
    if r.is_empty() {
        return s.to_string();
    }
    s.replace(&*format!("{r}/"), "").replace(&*r, ".")
}
